"""Per-property claims (input of tools_manifest.py)."""

CLAIMED = {
    "C20": {
        "level": "exploration",
        "technique": "deterministic simulation: seeded reordering/duplication of link and registration messages across replica processes, BFS reference model, cross-replica convergence",
        "text": "seeded search over registration orders, orientations, duplicates and interleaved queries on 2-3 replicas; all-pairs routing invariants after every delivery against a BFS model (abstract Node graphs: trees <=8, connected graphs <=6, the built-in graphs) and, on the real frame registries, non-interference, cross-replica bit-exact convergence and agreement with two-hop composition on pristine nodes. Sampling, not enumeration: a clean batch is evidence, not proof.",
        "note": "trusted: numpy, the BFS model, the pristine-node two-hop oracle (blind to an error common to every registration order); EOP corrections are zero (policy 'pass')",
        "ref": "DESIGN.md 5.1",
    },
    "C08": {
        "level": "exploration",
        "technique": "deterministic simulation: seeded scheduler interleaving, cancelling and abandoning lazily-consumed library iterators over shared orbit/propagator/ephemeris/listener objects; exact date-range model + fresh-node differential oracle",
        "text": "seeded search over schedules (which live iteration steps next, where propagate calls land, which iterations are closed or abandoned and their objects re-used) on pools of orbits with every propagator kind (SGP4 near-earth/deep-space, Kepler, J2, none, KeplerNum, Clohessy-Wiltshire, ephemeris; pairs sharing one propagator instance). Every yielded item is checked against an exact integer-millisecond model of the date contract, against a direct propagation on a pristine node (bit-exact for analytical propagators and ephemerides), against the stream of the same call made alone on a pristine node (numerical propagator, listeners), and every pool object's digest is compared after every step. Sampling, not proof.",
        "note": "trusted: numpy, sgp4 library; the differential oracle is blind to errors identical with and without history (numerical correctness is C05-C07, not applicable); KeplerNum values vs direct propagation only within a calibrated, integrator-dependent tolerance",
        "ref": "DESIGN.md 5.2",
    },
    "C10": {
        "level": "exploration",
        "technique": "deterministic simulation: the C08 scheduler with shared / re-used listener objects and caller-owned listener lists, cancelled and repeated iterations, virtual wall clock; independent models of every watched quantity + fresh-node stream differential",
        "text": "seeded search over schedules of iterations with listeners (every listener type, LEO to Molniya, analytical / numerical / ephemeris propagation, station.visibility streams) that are interleaved, cancelled, abandoned and repeated re-using the same listener objects and the same caller-owned list. For each pair of consecutive range dates the independent model of each watched quantity decides whether exactly one event per listener object must lie between them (sound + complete), each event is checked for position, sharpness (sign change of the model quantity within 3 x _eps_bisect + 2 us; 0.01 s / 0.5 s for umbra / penumbra against the true cones), label and order, visibility streams for exactly the above-horizon samples, and the whole stream against the same call made alone with fresh objects on a pristine node. Sampling, not proof.",
        "note": "trusted: numpy; frame conversions and the analytic Sun are taken from the pristine node (C02/C11/C18 territory); for two iterations consumed at the same time through one listener object (the plan's own doing) nothing is asserted about events; inside visibility streams completeness is asserted for the station listeners only (the others are filtered below the horizon by design)",
        "ref": "DESIGN.md 5.3",
    },
}

# claimed in DESIGN.md, check not yet registered
PENDING = {k: 'designed in DESIGN.md section 5; its check is still under construction in this build phase and is therefore not claimed yet' for k in ['C03','C12','C13','C14','C15','C18']}
