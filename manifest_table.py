"""Per-property claims (input of tools_manifest.py)."""

CLAIMED = {
    "C20": {
        "level": "exploration",
        "technique": "deterministic simulation: seeded reordering/duplication of link and registration messages across replica processes, BFS reference model, cross-replica convergence",
        "text": "seeded search over registration orders, orientations, duplicates and interleaved queries on 2-3 replicas; all-pairs routing invariants after every delivery against a BFS model (abstract Node graphs: trees <=8, connected graphs <=6, the built-in graphs) and, on the real frame registries, non-interference, cross-replica bit-exact convergence and agreement with two-hop composition on pristine nodes. Sampling, not enumeration: a clean batch is evidence, not proof.",
        "note": "trusted: numpy, the BFS model, the pristine-node two-hop oracle (blind to an error common to every registration order); EOP corrections are zero (policy 'pass')",
        "ref": "DESIGN.md 5.1",
    },
}

# claimed in DESIGN.md, check not yet registered
PENDING = {k: 'designed in DESIGN.md section 5; its check is still under construction in this build phase and is therefore not claimed yet' for k in ['C03','C08','C10','C12','C13','C14','C15','C18']}
