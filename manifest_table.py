"""Per-property claims (input of tools_manifest.py)."""

CLAIMED = {
    "C20": {
        "level": "exploration",
        "technique": "deterministic simulation: seeded reordering/duplication of link and registration messages across replica processes, BFS reference model, cross-replica convergence",
        "text": "seeded search over registration orders, orientations, duplicates and interleaved queries on 2-3 replicas; all-pairs routing invariants after every delivery against a BFS model (abstract Node graphs: trees <=8, connected graphs <=6, the built-in graphs) and, on the real frame registries, non-interference, cross-replica bit-exact convergence and agreement with two-hop composition on pristine nodes. Sampling, not enumeration: a clean batch is evidence, not proof.",
        "note": "trusted: numpy, the BFS model, the pristine-node two-hop oracle (blind to an error common to every registration order); EOP corrections are zero (policy 'pass')",
        "ref": "DESIGN.md 5.1",
    },
    "C08": {
        "level": "exploration",
        "technique": "deterministic simulation: seeded scheduler interleaving, cancelling and abandoning lazily-consumed library iterators over shared orbit/propagator/ephemeris/listener objects; exact date-range model + fresh-node differential oracle",
        "text": "seeded search over schedules (which live iteration steps next, where propagate calls land, which iterations are closed or abandoned and their objects re-used) on pools of orbits with every propagator kind (SGP4 near-earth/deep-space, Kepler, J2, none, KeplerNum, Clohessy-Wiltshire, ephemeris; pairs sharing one propagator instance). Every yielded item is checked against an exact integer-millisecond model of the date contract, against a direct propagation on a pristine node (bit-exact for analytical propagators and ephemerides), against the stream of the same call made alone on a pristine node (numerical propagator, listeners), and every pool object's digest is compared after every step. Sampling, not proof.",
        "note": "trusted: numpy, sgp4 library; the differential oracle is blind to errors identical with and without history (numerical correctness is C05-C07, not applicable); KeplerNum values vs direct propagation only within a calibrated, integrator-dependent tolerance",
        "ref": "DESIGN.md 5.2",
    },
}

# claimed in DESIGN.md, check not yet registered
PENDING = {k: 'designed in DESIGN.md section 5; its check is still under construction in this build phase and is therefore not claimed yet' for k in ['C03','C10','C12','C13','C14','C15','C18']}
