"""Per-property claims (input of tools_manifest.py)."""

CLAIMED = {
    "C20": {
        "level": "exploration",
        "technique": "deterministic simulation: seeded reordering/duplication of link and registration messages across replica processes, BFS reference model, cross-replica convergence",
        "text": "seeded search over registration orders, orientations, duplicates and interleaved queries on 2-3 replicas; all-pairs routing invariants after every delivery against a BFS model (abstract Node graphs: trees <=8, connected graphs <=6, the built-in graphs) and, on the real frame registries, non-interference, cross-replica bit-exact convergence and agreement with two-hop composition on pristine nodes. Sampling, not enumeration: a clean batch is evidence, not proof.",
        "note": "trusted: numpy, the BFS model, the pristine-node two-hop oracle (blind to an error common to every registration order); EOP corrections are zero (policy 'pass')",
        "ref": "DESIGN.md 5.1",
    },
    "C08": {
        "level": "exploration",
        "technique": "deterministic simulation: seeded scheduler interleaving, cancelling and abandoning lazily-consumed library iterators over shared orbit/propagator/ephemeris/listener objects; exact date-range model + fresh-node differential oracle",
        "text": "seeded search over schedules (which live iteration steps next, where propagate calls land, which iterations are closed or abandoned and their objects re-used) on pools of orbits with every propagator kind (SGP4 near-earth/deep-space, Kepler, J2, none, KeplerNum, Clohessy-Wiltshire, ephemeris; pairs sharing one propagator instance). Every yielded item is checked against an exact integer-millisecond model of the date contract, against a direct propagation on a pristine node (bit-exact for analytical propagators and ephemerides), against the stream of the same call made alone on a pristine node (numerical propagator, listeners), and every pool object's digest is compared after every step. Sampling, not proof.",
        "note": "trusted: numpy, sgp4 library; the differential oracle is blind to errors identical with and without history (numerical correctness is C05-C07, not applicable); KeplerNum values vs direct propagation only within a calibrated, integrator-dependent tolerance",
        "ref": "DESIGN.md 5.2",
    },
    "C10": {
        "level": "exploration",
        "technique": "deterministic simulation: the C08 scheduler with shared / re-used listener objects and caller-owned listener lists, cancelled and repeated iterations, virtual wall clock; independent models of every watched quantity + fresh-node stream differential",
        "text": "seeded search over schedules of iterations with listeners (every listener type, LEO to Molniya, analytical / numerical / ephemeris propagation, station.visibility streams) that are interleaved, cancelled, abandoned and repeated re-using the same listener objects and the same caller-owned list. For each pair of consecutive range dates the independent model of each watched quantity decides whether exactly one event per listener object must lie between them (sound + complete), each event is checked for position, sharpness (sign change of the model quantity within 3 x _eps_bisect + 2 us; 0.01 s / 0.5 s for umbra / penumbra against the true cones), label and order, visibility streams for exactly the above-horizon samples, and the whole stream against the same call made alone with fresh objects on a pristine node. Sampling, not proof.",
        "note": "trusted: numpy; frame conversions and the analytic Sun are taken from the pristine node (C02/C11/C18 territory); for two iterations consumed at the same time through one listener object (the plan's own doing) nothing is asserted about events; inside visibility streams completeness is asserted for the station listeners only (the others are filtered below the horizon by design)",
        "ref": "DESIGN.md 5.3",
    },
    "C13": {
        "level": "exploration",
        "technique": "deterministic simulation: writer / reader processes (fresh package copies with their own configuration and virtual wall clock) exchanging CCSDS messages through a simulated disk along seeded chains of write / restart / read / re-write hops; canonical-description equality at the written precision as oracle",
        "text": "seeded search over objects (OPM states / orbits in every built-in frame and time scale with covariance in the state's frame, another frame, QSW or TNW, 0..3 impulsive / continuous maneuvers in QSW / TNW / inertial axes, optional and user-defined fields; OMM from near-earth and deep-space TLEs; OEM with 1..12 points, 0..N covariances in mixed frames, linear / Lagrange settings, lists of ephemerides, non-cartesian points; TDM with range / azimuth / elevation / doppler on one or two paths) sent along chains of 1..3 hops between fresh processes, the encoding of each hop chosen by argument, configuration or default, the writer's clock set by the plan, and the same object also decoded from the other encoding. After each hop the decoded object's canonical description is compared with the original's at the written precision (epoch 1 us per cycle, 1 mm, 1 mm/s, covariance 1e-11 relative, dv 1 mm/s...), KVN-decoded with XML-decoded, CREATION_DATE with the virtual clock. Sampling, not proof.",
        "note": "trusted: lxml, numpy; absent name / identifier is taken as equivalent to the 'N/A' the library writes; body-centred (JPL) frames are not exercised; stored text is not corrupted (round trip, not detection); a multi-path TDM read back as a list of measure sets is compared measure by measure",
        "ref": "DESIGN.md 5.8",
    },
    "C14": {
        "level": "exploration",
        "technique": "deterministic simulation: seeded histories of covariance / state frame changes with faults injected at the k-th callee of a conversion, pickles crossing a simulated process boundary and transparent cache drops; reference model R C R^T from the original matrix (own QSW/TNW axes, pristine-node single-hop rotation) evaluated for every heap object after every operation",
        "text": "seeded search over histories (1..5 operations) on a state in each non-rotating frame with a symmetric PSD covariance attached in that frame (given as Frame or by name) or in QSW/TNW: cov.frame = T, state.frame = T, cov.copy(frame=T), state.copy(frame=T) (copies join the heap), pickling through another process, cache drops and failing variants (unknown frame, Hill, exception injected at the k-th expand / to_local / get_frame / form-edge / transform callee), T in the 10 built-in frames + QSW + TNW, with zero or real IERS EOP. After every operation every heap object's covariance is compared with R C0 R^T computed from the original matrix only (so the result cannot depend on the frames visited), checked symmetric, PSD, with unchanged position-block eigenvalues, the state untouched / dragged covariance following, and after a failure everything as before. Sampling, not proof.",
        "note": "trusted: numpy, the pristine node's single-hop orientation matrix F0 -> T (its correctness is C02, not applicable); for Earth-fixed targets the 6x6 result is compared with the pristine single hop including its rate coupling (the statement does not say whether the coupling belongs to a 'pure rotation') and the position block with R C_pp R^T; velocity-block tolerance is conditioned by omega x sigma_r once an Earth-fixed frame has been visited",
        "ref": "DESIGN.md 5.4",
    },
    "C15": {
        "level": "exploration",
        "technique": "deterministic simulation: seeded histories of copy / convert / assign / pickle operations over a heap of states with faults injected at the k-th callee boundary of a conversion (and natural failures), pickles delivered to another simulated process or across a restart; per-object snapshot model compared after every operation",
        "text": "seeded search over histories (<= 6 operations) on a heap of state vectors / orbits with or without covariance, maneuvers and metadata: copies (plain, form, frame, same=), in-place form / frame / covariance-frame changes into built-in, station, orbit- and ephemeris-attached frames, element / metadata / maneuver / covariance assignments, as_orbit / as_statevector, pickling to the same process, another process or across a restart, and failing variants of every converting operation (unknown names, Hill, ephemeris out of range, and an exception injected at the k-th form-edge / rotation / centre-offset / transform / covariance callee). After every operation: every other heap object bit-identical, no shared buffers / lists / dicts, receiver untouched by pure conversions, previous labels and values after a failure and object still usable, access by name / alias / index agreeing with the form's ordering, round trips preserving content and convertibility. Sampling, not proof.",
        "note": "trusted: numpy, pickle; asynchronous exceptions are not injected; sharing *inside* a Man object between a copy and its source is not examined; as_orbit/as_statevector results are allowed to share covariance / maneuver list / metadata with their source (only values and metadata preservation is stated for them)",
        "ref": "DESIGN.md 5.5",
    },
}

# claimed in DESIGN.md, check not yet registered
PENDING = {k: 'designed in DESIGN.md section 5; its check is still under construction in this build phase and is therefore not claimed yet' for k in ['C03','C12','C18']}
