#!/bin/bash
# usage: tools/process_seed.sh <PROP> <mN|bN> : verify (applies, baseline unchanged, demo) then run the property's quick check against it.
prop=$1; m=$2
bash /verif/tools/verify_seed.sh $prop $m > /tmp/seedverify/${prop}_$m.verify.txt 2>&1
VERIF_WORKERS=${VERIF_WORKERS:-8} bash /verif/tools/try_seed.sh /tmp/seeds/$prop/$m $prop > /tmp/seedverify/${prop}_$m.try.txt 2>&1
echo "=== $prop $m"; grep -E "demo_|patch_applies|tests_summary|failed_set" /tmp/seedverify/${prop}_$m.verify.txt | tr '\n' ' '; echo; grep -E "exit|VIOLATION|HARNESS" /tmp/seedverify/${prop}_$m.try.txt | cut -c1-300 | head -6
