#!/venv/bin/python
"""Like triage.py but groups violation classes by a few fingerprint keys and prints one example each.
usage: tools/triage2.py PROP N seed key1,key2,..."""
import os, sys, json, collections
os.environ.setdefault("PYTHONHASHSEED", "0")
sys.path.insert(0, os.path.dirname(os.path.dirname(os.path.abspath(__file__))))
import warnings; warnings.filterwarnings("ignore")
import logging; logging.disable(logging.CRITICAL)
from concurrent.futures import ProcessPoolExecutor
import multiprocessing as mp
from sim import core

def work(args):
    prop, seed, i = args
    plan = core.gen_plan(prop, seed, i, "quick")
    r = core.execute_plan(prop, plan)
    return i, r["violation"], r["harness_error"], r["known_hits"]

if __name__ == "__main__":
    prop = sys.argv[1].upper(); n = int(sys.argv[2]); seed = int(sys.argv[3]); keys = sys.argv[4].split(",")
    tally = collections.Counter(); ex = {}; herr = []; known = collections.Counter()
    with ProcessPoolExecutor(16, mp_context=mp.get_context("fork")) as pool:
        for i, v, h, k in pool.map(work, [(prop, seed, i) for i in range(n)], chunksize=4):
            for kid, _ in k: known[kid] += 1
            if h: herr.append((i, h))
            if v:
                key = (v["clause"],) + tuple(str(v["fingerprint"].get(x)) for x in keys)
                tally[key] += 1; ex.setdefault(key, (i, v["detail"]))
    for key, c in tally.most_common():
        print(c, key); print("     e.g. run", ex[key][0], ":", ex[key][1][:600])
    print("known:", dict(known)); print("harness errors:", len(herr))
    for i, h in herr[:3]: print("  run", i, h[-1200:])
