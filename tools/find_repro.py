#!/venv/bin/python
"""Find and minimise one replay per violation class (used to record repro files of findings).
usage: VERIF_REPO=<tree> tools/find_repro.py <PROP> <N> <seed> <outdir>"""
import os, sys, json, time
os.environ.setdefault("PYTHONHASHSEED", "0")
sys.path.insert(0, os.path.dirname(os.path.dirname(os.path.abspath(__file__))))
import warnings; warnings.filterwarnings("ignore")
import logging; logging.disable(logging.CRITICAL)
from concurrent.futures import ProcessPoolExecutor
import multiprocessing as mp
from sim import core

def work(args):
    prop, seed, i = args
    plan = core.gen_plan(prop, seed, i, "quick")
    r = core.execute_plan(prop, plan)
    return i, plan, r

def mini(args):
    prop, plan, v = args
    mplan, tried = core.minimise(prop, plan, v, budget_s=60)
    r = core.execute_plan(prop, mplan)
    return mplan, r

if __name__ == "__main__":
    prop = sys.argv[1].upper(); n = int(sys.argv[2]); seed = int(sys.argv[3]); out = sys.argv[4]
    os.makedirs(out, exist_ok=True)
    classes = {}
    with ProcessPoolExecutor(16, mp_context=mp.get_context("fork")) as pool:
        for i, plan, r in pool.map(work, [(prop, seed, i) for i in range(n)], chunksize=4):
            v = r["violation"]
            if v:
                key = json.dumps({k: v["fingerprint"].get(k) for k in sorted(v["fingerprint"])}, sort_keys=True) + v["clause"]
                classes.setdefault(key, (plan, v))
        items = list(classes.values())
        for (plan, v), (mplan, r) in zip(items, pool.map(mini, [(prop, p, v) for p, v in items])):
            if not r["violation"]:
                mplan, r = plan, core.execute_plan(prop, plan)
            fp = r["violation"]["fingerprint"]
            name = f"{prop}-{r['violation']['clause']}-" + "-".join(str(fp.get(k)) for k in ("kind", "prop_kind", "call", "backward", "short_span") if fp.get(k) is not None)
            path = os.path.join(out, name.replace(" ", "_") + ".json")
            k = 1
            while os.path.exists(path):
                k += 1
                path = os.path.join(out, name.replace(" ", "_") + f"-{k}.json")
            json.dump({"property": prop, "clause": r["violation"]["clause"], "seed": plan.get("seed"), "run": plan.get("run"), "violation": r["violation"], "log_digest": r["digest"], "plan": mplan}, open(path, "w"), indent=1, sort_keys=True)
            print(path, len(plan["ops"]), "->", len(mplan["ops"]), "|", r["violation"]["detail"][:200])
