#!/bin/bash
# usage: tools/try_seed.sh <seed dir with patch.diff [demo.py]> <PROP> [extra env]
# applies the patch to /repo, runs the demo and the quick check, then restores /repo
d=$1; prop=$2
cd /repo || exit 9
if [ -n "$(git status --porcelain --untracked-files=no)" ]; then echo "REPO DIRTY"; exit 9; fi
if ! git apply --check "$d/patch.diff" 2>/dev/null; then echo "PATCH DOES NOT APPLY: $d"; exit 8; fi
git apply "$d/patch.diff"
if [ -f "$d/demo.py" ]; then (cd /repo && timeout 300 /venv/bin/python "$d/demo.py" >/dev/null 2>&1; echo "demo exit with change: $?"); fi
cd /verif && timeout 900 /venv/bin/python run_check.py $prop --tier quick 2>&1 | grep -E "VIOLATION|violation run|detail|exit|HARNESS" | cut -c1-400
cd /repo && git checkout -- . && git status --porcelain --untracked-files=no
