#!/bin/bash
# usage: tools/try_seed.sh <seed dir with patch.diff [demo.py]> <PROP>
# Applies the patch in a scratch worktree of /repo HEAD (never in /repo itself, so that checks running
# elsewhere are not disturbed), runs the demo and the property's quick check against it (VERIF_REPO), removes the worktree.
d=$(realpath $1); prop=$2
wt=/tmp/sv/try_$$_$RANDOM
mkdir -p /tmp/sv
git -C /repo worktree add -q --detach $wt HEAD || exit 9
if ! git -C $wt apply --check "$d/patch.diff" 2>/dev/null; then echo "PATCH DOES NOT APPLY: $d"; git -C /repo worktree remove --force $wt; exit 8; fi
git -C $wt apply "$d/patch.diff"
if [ -f "$d/demo.py" ]; then (cd $wt && PYTHONPATH=$wt timeout 300 /venv/bin/python "$d/demo.py" >/dev/null 2>&1; echo "demo exit with change: $?"); fi
mkdir -p /tmp/sv/out_$$; cd /verif && VERIF_EVIDENCE_DIR=/tmp/sv/out_$$ VERIF_REPLAY_DIR=/tmp/sv/out_$$ VERIF_REPO=$wt VERIF_WORKERS=${VERIF_WORKERS:-16} timeout 1200 /venv/bin/python run_check.py $prop --tier quick 2>&1 | grep -E "VIOLATION|violation run|detail|exit|HARNESS" | cut -c1-400
git -C /repo worktree remove --force $wt
rm -rf /tmp/sv/out_$$
