#!/usr/bin/env python3
"""Store a confirmed seeded change under /verif/seeded/<PROP>-<mN>/ (patch.diff, demo.py, meta.json)."""
import json, os, shutil, sys
prop, m, status, notes = sys.argv[1], sys.argv[2], sys.argv[3], sys.argv[4]
src = f"/tmp/seeds/{prop}/{m}"
dst = f"/verif/seeded/{prop}-{m}"
os.makedirs(dst, exist_ok=True)
shutil.copy(f"{src}/patch.diff", dst)
shutil.copy(f"{src}/demo.py", dst)
meta = json.load(open(f"{src}/meta.json"))
ver = open(f"/tmp/seedverify/{prop}_{m}.txt").read()
demo = [l for l in open("/tmp/demo_verify.txt") if l.startswith(f"{prop}/{m} ")][0].strip()
out = {
    "property": prop,
    "origin": "written by an independent sub-agent that was given only the property text and a scratch worktree (nothing from /verif)",
    "summary": meta.get("summary"),
    "needs": meta.get("needs"),
    "files": meta.get("files"),
    "confirmed_by_me": {
        "how": "scratch worktree of /repo HEAD: git apply patch.diff; full baseline test command; demo.py with PYTHONPATH=<worktree> with and without the patch",
        "tests_with_change": [l.split("=", 1)[1] for l in ver.splitlines() if l.startswith("tests_summary")][0],
        "failing_set_identical_to_baseline": "failed_set_md5=3f71ddd98661" in ver,
        "demo": demo,
    },
    "check_result": status,
    "notes": notes,
}
json.dump(out, open(f"{dst}/meta.json", "w"), indent=1)
print("saved", dst)
