#!/bin/bash
# Cross false-alarm test: every benign change under /verif/benign applied in a scratch worktree, every registered check run against it
# (reduced number of plans: VERIF_RUNS, default 400). Output: /tmp/wip/benign_matrix.txt, one line per (change, check): exit code.
# usage: tools/benign_matrix.sh [parallel jobs, default 3]
jobs=${1:-3}; out=/tmp/wip/benign_matrix.txt; mkdir -p /tmp/wip /tmp/sv; [ -n "$BENIGN$CHECKS" ] || : > $out
run_one() {
  d=$1; b=$(basename $d); wt=/tmp/sv/bm_$b
  git -C /repo worktree add -q --detach $wt HEAD || exit 9
  if ! git -C $wt apply $d/patch.diff 2>/dev/null; then echo "$b PATCH-DOES-NOT-APPLY" >> /tmp/wip/benign_matrix.txt; git -C /repo worktree remove --force $wt; return; fi
  for p in ${CHECKS:-C03 C08 C09 C10 C12 C13 C14 C15 C18 C20}; do
    o=/tmp/sv/bmo_${b}_$p; mkdir -p $o
    (cd /verif && VERIF_EVIDENCE_DIR=$o VERIF_REPLAY_DIR=$o VERIF_REPO=$wt VERIF_WORKERS=4 VERIF_RUNS=${VERIF_RUNS:-400} timeout 1200 /venv/bin/python run_check.py $p --tier quick > $o/log 2>&1; echo "$b $p exit=$? $(grep -E 'VIOLATION|HARNESS' $o/log | head -2 | cut -c1-300 | tr '\n' ' ')" >> /tmp/wip/benign_matrix.txt)
    if ! grep -q "exit=0" <(tail -1 /tmp/wip/benign_matrix.txt); then mkdir -p /tmp/wip/bm_keep; cp $o/log /tmp/wip/bm_keep/${b}_$p.log; fi
    rm -rf $o
  done
  git -C /repo worktree remove --force $wt
}
export -f run_one
# BENIGN="C15-b1 C14-b1" restricts the changes, CHECKS="C08 C10" the checks
(if [ -n "$BENIGN" ]; then for b in $BENIGN; do echo /verif/benign/$b; done; else ls -d /verif/benign/C*; fi) | xargs -P $jobs -I{} bash -c 'run_one {}'
sort $out | grep -v "exit=0" ; echo "clean: $(grep -c 'exit=0' $out) / $(wc -l < $out)"
