#!/bin/bash
# usage: tools/verify_seed.sh <PROP> <mN> : confirm in a scratch worktree of /repo HEAD that the patch applies, the baseline
# suite result is unchanged (306 passed / same 11 failed), the demo fails with the change and passes without it.
prop=$1; m=$2; d=/tmp/seeds/$prop/$m; wt=/tmp/sv/${prop}_$m; out=/tmp/seedverify/${prop}_$m.txt
mkdir -p /tmp/sv /tmp/seedverify
git -C /repo worktree add -q --detach $wt HEAD || exit 9
cd $wt
{
echo "seed $prop/$m on repo $(git -C /repo rev-parse --short HEAD)"
(PYTHONPATH=$wt timeout 300 /venv/bin/python $d/demo.py >/dev/null 2>&1; echo "demo_without_change_exit=$?")
if git apply --check $d/patch.diff 2>/dev/null; then echo "patch_applies=yes"; git apply $d/patch.diff; else echo "patch_applies=NO"; fi
(PYTHONPATH=$wt timeout 300 /venv/bin/python $d/demo.py >/dev/null 2>&1; echo "demo_with_change_exit=$?")
timeout 1500 /venv/bin/python -m pytest -q -p no:cacheprovider --timeout=900 --continue-on-collection-errors -o addopts="--doctest-modules beyond/ tests/" 2>&1 | grep -E "^FAILED|passed|failed" | sed 's/ - .*//' | sort > $out.tests
echo "tests_summary=$(grep -E 'passed|failed' $out.tests | tail -1)"
echo "failed_set_md5=$(grep '^FAILED' $out.tests | md5sum | cut -c1-12)"
} > $out 2>&1
cd / && git -C /repo worktree remove --force $wt
cat $out
