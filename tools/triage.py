#!/venv/bin/python
"""Run N plans of a property and tally violation classes (does not stop at the first)."""
import os, sys, json, collections, time
os.environ.setdefault("PYTHONHASHSEED", "0")
sys.path.insert(0, os.path.dirname(os.path.dirname(os.path.abspath(__file__))))
import warnings; warnings.filterwarnings("ignore")
import logging; logging.disable(logging.CRITICAL)
from concurrent.futures import ProcessPoolExecutor
import multiprocessing as mp
from sim import core

def work(args):
    prop, seed, i, tier = args
    plan = core.gen_plan(prop, seed, i, tier)
    t = time.time()
    r = core.execute_plan(prop, plan)
    return i, r["violation"], r["harness_error"], r["known_hits"], time.time() - t, r["probes"], r["maxima"]

if __name__ == "__main__":
    prop = sys.argv[1].upper(); n = int(sys.argv[2]); seed = int(sys.argv[3]) if len(sys.argv) > 3 else 1
    start = int(sys.argv[4]) if len(sys.argv) > 4 else 0
    tally = collections.Counter(); ex = {}; herr = []; times = []; probes = collections.Counter(); known = collections.Counter(); maxima = {}
    with ProcessPoolExecutor(16, mp_context=mp.get_context("fork")) as pool:
        for i, v, h, k, dt, pr, mx in pool.map(work, [(prop, seed, i, "quick") for i in range(start, start + n)], chunksize=4):
            times.append(dt); probes.update(pr)
            for kk, vv in mx.items(): maxima[kk] = max(maxima.get(kk, -1), vv)
            for kid, _ in k: known[kid] += 1
            if h: herr.append((i, h))
            if v:
                key = (v["clause"], json.dumps(v["fingerprint"], sort_keys=True))
                tally[key] += 1; ex.setdefault(key, (i, v["detail"]))
    for key, c in tally.most_common():
        print(c, key[0], key[1]); print("     e.g. run", ex[key][0], ":", ex[key][1][:400])
    print("known:", dict(known))
    print("maxima:", maxima)
    print("harness errors:", len(herr))
    for i, h in herr[:5]: print("  run", i, h[-1500:])
    print(f"runs {n}, mean {sum(times)/len(times):.2f}s max {max(times):.2f}s; probes {dict(probes)}")
