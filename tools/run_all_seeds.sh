#!/bin/bash
# Regression of the checks against every seeded change under /verif/seeded: each must be caught by the quick tier of its property.
# usage: tools/run_all_seeds.sh [parallel jobs, default 4]    -> /tmp/wip/seed_regression.txt
jobs=${1:-4}
out=/tmp/wip/seed_regression.txt; mkdir -p /tmp/wip; : > $out
run_one() {
  d=$1; prop=$(basename $d | cut -d- -f1)
  r=$(VERIF_MAX_WALL=1500 VERIF_WORKERS=4 bash /verif/tools/try_seed.sh $d $prop 2>&1 | grep -E "^\[$prop\] exit|PATCH DOES NOT" | tail -1)
  echo "$(basename $d) $r" >> /tmp/wip/seed_regression.txt
}
export -f run_one
ls -d /verif/seeded/${SEEDS_GLOB:-C*}-m* | xargs -P $jobs -I{} bash -c 'run_one {}'
sort $out; echo "caught: $(grep -c 'exit 1' $out) / $(wc -l < $out)"
