#!/venv/bin/python
"""Determinism self-test of the simulator (DESIGN.md section 8).

For every registered property, N plans are executed three times in fresh interpreters:
  A. PYTHONHASHSEED=0, 1 worker, ascending run order
  B. PYTHONHASHSEED=1, 16 workers, descending run order (other neighbours in each worker)
  C. PYTHONHASHSEED=random, 4 workers, ascending
and the per-run event-log digests must be identical (a run is a pure function of its plan and the code).

usage: tools/selftest_determinism.py [N] [PROP ...]      exit 0 iff no divergence
"""
import json
import os
import subprocess
import sys

HERE = os.path.dirname(os.path.dirname(os.path.abspath(__file__)))

CHILD = r"""
import os, sys, json
sys.path.insert(0, %r)
import warnings; warnings.filterwarnings("ignore")
import logging; logging.disable(logging.CRITICAL)
from concurrent.futures import ProcessPoolExecutor
import multiprocessing as mp
from sim import core

def work(a):
    prop, seed, i = a
    plan = core.gen_plan(prop, seed, i, "quick")
    r = core.execute_plan(prop, plan)
    return i, r["digest"], bool(r["violation"]), r["harness_error"]

if __name__ == "__main__":
    prop, n, workers, order, seed = sys.argv[1], int(sys.argv[2]), int(sys.argv[3]), sys.argv[4], int(sys.argv[5])
    idx = list(range(n))
    if order == "desc":
        idx.reverse()
    args = [(prop, seed, i) for i in idx]
    if workers == 1:
        res = [work(a) for a in args]
    else:
        with ProcessPoolExecutor(workers, mp_context=mp.get_context("fork")) as pool:
            res = list(pool.map(work, args, chunksize=3))
    print(json.dumps({str(i): [d, v, bool(h)] for i, d, v, h in res}))
""" % HERE


def run(prop, n, workers, order, hashseed, seed):
    env = dict(os.environ)
    if hashseed is None:
        env.pop("PYTHONHASHSEED", None)
        env["PYTHONHASHSEED"] = "random"
    else:
        env["PYTHONHASHSEED"] = str(hashseed)
    p = subprocess.run(["/venv/bin/python", "-c", CHILD, prop, str(n), str(workers), order, str(seed)], capture_output=True, text=True, env=env, cwd=HERE, timeout=3000)
    if p.returncode != 0:
        raise RuntimeError(p.stderr[-2000:])
    return json.loads(p.stdout.strip().splitlines()[-1])


if __name__ == "__main__":
    n = int(sys.argv[1]) if len(sys.argv) > 1 else 60
    props = [p.upper() for p in sys.argv[2:]] or ["C03", "C08", "C09", "C10", "C12", "C13", "C14", "C15", "C18", "C20"]
    bad = 0
    for prop in props:
        a = run(prop, n, 1, "asc", 0, 777)
        b = run(prop, n, 16, "desc", 1, 777)
        c = run(prop, n, 4, "asc", None, 777)
        div = [i for i in a if not (a[i][0] == b[i][0] == c[i][0])]
        herr = [i for i in a if a[i][2] or b[i][2] or c[i][2]]
        viol = [i for i in a if a[i][1]]
        print(f"{prop}: {n} plans x 3 executions (hash seeds 0 / 1 / random; 1 / 16 / 4 workers; ascending / descending): {len(div)} divergent digests, {len(herr)} harness errors, {len(viol)} violating runs" + (f"  DIVERGENT: {div[:10]}" if div else ""), flush=True)
        bad += len(div) + len(herr)
    sys.exit(1 if bad else 0)
