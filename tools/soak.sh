#!/bin/bash
# False-alarm soak: tools/soak.sh <tier> <workers> <seed> [<seed> ...]
# To be started with `vp run --with-repo -- bash tools/soak.sh quick 6 51 52 53` : runs every registered check on the snapshot of /repo's HEAD
# ($VP_RUN_REPO, never /repo itself), evidence and replays going to a scratch directory. Prints one line per (property, seed): exit code.
tier=$1; workers=$2; shift 2
repo=${VP_RUN_REPO:-/repo}
out=$(mktemp -d /tmp/soak_XXXXXX)
for seed in "$@"; do
  for p in C03 C08 C09 C10 C12 C13 C14 C15 C18 C20; do
    VERIF_EVIDENCE_DIR=$out VERIF_REPLAY_DIR=$out/replays_${seed} VERIF_REPO=$repo VERIF_WORKERS=$workers VERIF_SEED=$seed \
      timeout 3000 /venv/bin/python run_check.py $p --tier $tier > $out/$p.$seed.log 2>&1
    code=$?
    echo "SOAK $p seed=$seed tier=$tier exit=$code $(grep -E '^\[.*\] [0-9]+ runs' $out/$p.$seed.log | cut -c1-90)"
    if [ $code -ne 0 ]; then grep -E "VIOLATION|violation run|detail|HARNESS" $out/$p.$seed.log | cut -c1-600; mkdir -p /tmp/soak_keep; cp -r $out/replays_${seed} /tmp/soak_keep/ 2>/dev/null; cp $out/$p.$seed.log /tmp/soak_keep/; fi
  done
done
rm -rf $out
