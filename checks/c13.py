"""C13 - CCSDS OPM / OEM / OMM / TDM messages round-trip in KVN and XML.

Multi-party simulation: a writer process builds an object and writes it to the simulated disk,
a *different* process (fresh node: its own registries and configuration) reads it, writes it
again, and so on along a chain (<= 3 hops).  Per hop the plan fixes where the encoding comes from
(fmt= argument, configuration, built-in default), the writer's wall clock (CREATION_DATE is the
only clock read), and whether the same object is also written in the other encoding for the
KVN == XML clause.  The oracle is equality of a canonical description of the object at the
written precision (DESIGN.md 5.8)."""

import hashlib
import io
import os
import re

import numpy as np

from sim.node import Node, SimDisk, load_real_eop, REPO
from sim import world
from sim.core import fhex

LEVEL = "exploration"
TIERS = {
    "quick": {"runs": 2500, "max_wall": 170, "chunk": 20},
    "thorough": {"runs": 150000, "max_wall": 1700, "chunk": 40},
}
RULE = (
    "one run = one seeded object (OPM state/orbit, OMM mean elements, OEM ephemeris or list, TDM measure set; every built-in frame and time scale; "
    "covariance in the state's frame / another frame / QSW / TNW; 0..3 impulsive or continuous maneuvers; optional fields present or absent) sent along a "
    "chain of 1..3 write/read hops between fresh processes, the encoding of each hop coming from the fmt argument, the configuration or the default, the "
    "writer's wall clock set by the plan. distinct = distinct (message type, encoding chain, frame class, scale, covariance-frame class, maneuver kinds and "
    "frames, #points, #covariances, config source) signatures; non-trivial = at least one hop decoded and compared (every completed run)"
)
STATE_MEASURE = "(message type, encoding per hop, frame, scale, cov-frame class, maneuver frame set, #points class, #covs class, config source)"
PROBES = [
    "hop_compared", "kvn_xml_compared", "redump_compared", "config_default_used", "builtin_default_used", "creation_date_from_virtual_clock",
    "cov_in_local_frame", "cov_in_other_frame", "man_qsw", "man_tnw", "man_inertial", "man_continuous", "single_point_oem", "single_cov_oem", "multi_ephem_oem",
    "omm_redumped", "tdm_two_paths", "user_defined_fields", "absent_name", "stored_example_message", "body_centred_frame", "reader_read_another_message_first", "reader_read_a_message_of_another_object_first", "dump_keyword_arguments", "object_with_frame_history_written",
]
REAL_VS_STUB = "real: beyond.io.ccsds writers and readers (lxml), StateVector/Orbit/Ephem/Cov/maneuvers/MeasureSet, Tle; stub: the file objects handed to dump()/load() (simulated disk), the datetime class read by Date.now (virtual wall clock); model: canonical description of the object compared at the written precision"
ASSUMPTIONS = [
    "an absent object name / identifier is written as 'N/A' by the library and is taken as equivalent to absent",
    "the writer and the reader share the EOP configuration (a different leap-second table legitimately moves instants)",
    "corruption of the stored text is not injected: the statement promises round trip, not detection",
]
SAMPLED_ONLY = []
TOLERANCES = {"pos_m": 0.51e-3, "vel_m_s": 0.51e-3, "epoch_s": 1.5e-6, "cov_rel": 1e-11, "dv_m_s": 0.51e-3, "duration_s": 0.51e-3}

INERTIAL = ["EME2000", "MOD", "TOD", "TEME", "GCRF", "CIRF", "G50"]
ROTATING = ["ITRF", "PEF", "TIRF"]
SCALES = ["UTC", "UTC", "TAI", "TT", "GPS", "UT1", "TDB"]
ENC = ["arg:kvn", "arg:xml", "cfg:kvn", "cfg:xml", "default"]
BODY = ["MarsBarycenter", "Moon", "Sun", "EarthBarycenter", "SolarSystemBarycenter"]  # frames created from the JPL kernel
DATA_DIR = os.path.join(REPO, "tests", "io", "ccsds", "data")
# opm_strange_units.* are the repository's negative fixtures (an unknown unit must be refused)
STORED = sorted(f for f in os.listdir(DATA_DIR) if f.endswith((".kvn", ".xml")) and not f.startswith("opm_strange_units")) if os.path.isdir(DATA_DIR) else []
JPL_FILES = [os.path.join(REPO, "tests", "data", "jpl", f) for f in ("de403_2000-2020.bsp", "pck00010.tpc", "gm_de431.tpc")]


# ------------------------------------------------------------------ generate


def _kep(rng):
    a = rng.uniform(6.8e6, 4.3e7)
    e = rng.uniform(0.0005, min(0.7, 1 - 6.6e6 / a))
    return [a, e, rng.uniform(0.02, 3.1), rng.uniform(0.0, 6.28), rng.uniform(0.0, 6.28), rng.uniform(0.0, 6.28)]


def _epoch(rng):
    # microsecond readings; some on a whole second / whole day
    us = rng.choice([0, 0, rng.randrange(1000000), rng.randrange(1000) * 1000])
    return [rng.randint(45000, 57790), float(rng.choice([0, rng.randint(0, 86399)])) + us * 1e-6]


def _mans(rng):
    out = []
    for _ in range(rng.choice([0, 0, 1, 1, 2, 3])):
        m = {
            "type": rng.choice(["imp", "imp", "cont"]),
            "off_s": float(rng.randint(60, 86000)) + rng.choice([0.0, 0.984493, 0.5]),
            "dv": [round(rng.uniform(-300, 300), rng.choice([0, 3, 3])) for _ in range(3)],
            "frame": rng.choice(["TNW", "QSW", None, "TNW", "QSW"]),
            "comment": rng.choice([None, "Maneuver 1", "apogee burn"]),
        }
        if m["type"] == "cont":
            m["dur_s"] = float(rng.choice([60, 180, 180.5, 1200]))
            m["date_pos"] = rng.choice(["start", "start", "median", "stop"])
        out.append(m)
    out.sort(key=lambda x: x["off_s"])
    return out


def gen_plan(rng, tier, i):
    kind = rng.choice(["opm", "opm", "opm", "oem", "oem", "omm", "tdm", "file"])
    spec = {"kind": kind, "scale": rng.choice(SCALES), "epoch": _epoch(rng)}
    if kind == "file":
        # a stored example message of the repository is the first thing on the disk: read, then written again along the chain
        spec = {"kind": "file", "file": rng.choice(STORED), "jpl": True}
        hops = []
        for _ in range(rng.choice([1, 2, 2, 3])):
            hops.append({"enc": rng.choice(ENC), "clock": [rng.randint(2000, 2035), rng.randint(1, 12), rng.randint(1, 28), rng.randint(0, 23), rng.randint(0, 59), rng.randint(0, 59), rng.randrange(1000000)], "both": rng.random() < 0.4})
        return {"knobs": {"spec": spec, "real_eop": False}, "ops": hops}
    named = rng.random() < 0.8
    if named:
        spec["name"] = rng.choice(["ISS (ZARYA)", "SAT-1", "X", "GOES 9 [P]", "DEB [1998-067A] 2"])
        spec["cospar_id"] = rng.choice(["1998-067A", "2018-001A"])
    if kind == "opm":
        spec.update(_placeholder=0)
        spec.pop("_placeholder")
        spec.update(
            kep=_kep(rng),
            frame=rng.choice(INERTIAL + INERTIAL + ROTATING + BODY),
            form=rng.choice(["cartesian", "cartesian", "keplerian", "spherical", "equinoctial"]),
            type=rng.choice(["sv", "orbit"]),
            cov=rng.choice([None, None, "same", "same", "other", "QSW", "TNW"]),
            cov_seed=rng.randrange(1 << 30),
            mans=_mans(rng),
            user=rng.choice([None, None, {"FOO": "bar"}, {"MASS": "812.5", "NOTE": "free text here"}]),
            kep_flag=rng.choice([True, True, False]),
        )
        if spec["cov"] == "same" and spec["frame"] not in BODY and rng.random() < 0.4:
            # the object has a history before it is written: covariance moved to another frame, state moved, covariance moved again
            spec["cov_history"] = [["cov", rng.choice(INERTIAL)], ["state", rng.choice(INERTIAL + ROTATING)], ["cov", rng.choice([spec["frame"], spec["frame"], rng.choice(INERTIAL)])]]
    elif kind == "omm":
        spec.update(tle=rng.choice(["iss", "molniya", "gps", "geo"]), cov=rng.choice([None, None, "same", "QSW", "TNW"]), cov_seed=rng.randrange(1 << 30), user=rng.choice([None, {"FOO": "bar"}]))
        spec.pop("scale")
        spec.pop("epoch")
    elif kind == "oem":
        n_eph = rng.choice([1, 1, 1, 2])
        ephs = []
        for _ in range(n_eph):
            npts = rng.choice([1, 2, 3, 5, 9, 12])
            ncov = rng.choice([0, 0, 1, 2, npts])
            ephs.append(
                {
                    "kep": _kep(rng),
                    "frame": rng.choice(INERTIAL + ROTATING + BODY[:2]),
                    "form": rng.choice(["cartesian", "cartesian", "cartesian", "keplerian"]),
                    "npts": npts,
                    "step_s": float(rng.choice([60, 180, 300.5])),
                    "cov_idx": sorted(rng.sample(range(npts), min(ncov, npts))),
                    "cov_frames": [rng.choice(["same", "same", "other", "QSW", "TNW"]) for _ in range(min(ncov, npts))],
                    "cov_seed": rng.randrange(1 << 30),
                    "method": rng.choice(["lagrange", "lagrange", "linear"]),
                    "order": rng.choice([2, 5, 8, 8, 11]),
                }
            )
        spec["ephems"] = ephs
    else:
        pool = [
            ["TLS", "1998-067A", "TLS"], ["TLS", "1998-067A", "TLS"], ["KRU", "1998-067A"], ["TLS", "1998-067A", "KRU"], ["KRU", "1998-067A", "KRU"],
            ["TLS", "1998-067A", "TLS", "KRU"], ["TLS", "1998-067A", "RELAY-2", "1998-067A", "KRU"], ["KRU", "KRU", "1998-067A"],
        ]
        paths = [rng.choice(pool)]
        if rng.random() < 0.35:
            p2 = rng.choice(pool)
            if p2 != paths[0]:
                paths.append(p2)
        spec["paths"] = paths
        spec["types"] = rng.choice([["range", "az", "el"], ["range"], ["az", "el"], ["range", "az", "el", "doppler"], ["doppler"]])
        spec["npts"] = rng.choice([1, 2, 5, 20])
        spec["step_s"] = float(rng.choice([1, 5, 5.5]))
        spec["seed"] = rng.randrange(1 << 30)
    uses_body = (kind == "opm" and spec["frame"] in BODY) or (kind == "oem" and any(e["frame"] in BODY for e in spec["ephems"]))
    if uses_body:
        spec["jpl"] = True
        spec["epoch"][0] = rng.randint(51600, 58700)  # inside the kernel 2000-2020
    hops = []
    for _ in range(rng.choice([1, 1, 2, 2, 3]) if tier != "thorough" else rng.choice([1, 2, 3, 4, 5])):  # thorough: longer write / read chains
        hops.append({"enc": rng.choice(ENC), "clock": [rng.randint(2000, 2035), rng.randint(1, 12), rng.randint(1, 28), rng.randint(0, 23), rng.randint(0, 59), rng.randint(0, 59), rng.randrange(1000000)], "both": rng.random() < 0.4})
    if kind in ("opm", "omm", "oem") and rng.random() < 0.25:
        # the documented keyword arguments of dump(): they take precedence over what the object carries
        hops[0]["kwargs"] = {"name": "RENAMED SAT", "cospar_id": "2020-055B", "originator": "VERIF"}
    if kind == "opm" and not spec.get("kep_flag", True):
        hops[0].setdefault("kwargs", {})["kep"] = False
    decoy = None
    if kind in ("opm", "oem", "tdm") and rng.random() < 0.4:
        decoy = rng.choice([sc for sc in ["UTC", "TAI", "TT", "GPS"] if sc != spec["scale"]])
    real_eop = rng.random() < 0.3
    import random

    child = random.Random("c13-child:" + repr(sorted((k_, repr(v_)) for k_, v_ in spec.items())))  # choices added after the first version: own generator, earlier plans keep their draws
    decoy_other = False
    if kind in ("opm", "omm") and child.random() < 0.35:
        # every reader first reads a message of another object (other name, other user-defined fields)
        decoy_other = True
        if kind == "opm" and decoy is None and child.random() < 0.5:
            decoy = spec["scale"]
    if kind == "oem" and len(spec["ephems"]) > 1 and child.random() < 0.7:
        # a list of ephemerides of different objects (chaser / target): each segment keeps its own identity
        for q, es in enumerate(spec["ephems"][1:]):
            es["name"] = child.choice(["CHASER", "TARGET 2", "DEB [B]"])
            es["cospar_id"] = child.choice(["2020-001B", "1999-025DZ"])
        if child.random() < 0.4:
            spec["ephems"][0]["anonymous"] = True  # the first one carries no name at all
    if "epoch" in spec and child.random() < 0.2:
        # fractions of a second whose product by 1e6 falls just below a whole number in binary floating point
        spec["epoch"][1] = float(int(spec["epoch"][1])) + child.choice([0.0157, 0.0314, 0.0628, 0.000249, 0.127069, 0.508265, 0.29, 0.57, 0.58])
    if spec.get("user") and child.random() < 0.4:
        # user-defined keywords are free: lower case, mixed case, names differing by case only
        spec["user"] = child.choice([{"operator": "cnes", "dragArea": "2.5"}, {"MASS": "812.5", "mass": "800"}, {"Foo": "bar", "FOO": "BAR"}])
    if kind == "tdm" and len(spec.get("paths", [])) > 1 and child.random() < 0.5:
        # each station dates its measures in its own time scale
        spec["path_scales"] = [child.choice(["UTC", "TAI", "TT", "GPS"]) for _ in spec["paths"]]
    if kind == "opm":
        for m_ in spec.get("mans", []):
            if m_["type"] == "cont" and child.random() < 0.35:
                m_["dur_s"] = child.choice([0.04, 0.5, 0.001, 86400.0, 172800.0, 86400.5, 3.25])  # shorter than a second, whole days
    return {"knobs": {"spec": spec, "real_eop": real_eop, "decoy_scale": decoy, "decoy_other": decoy_other}, "ops": hops}


# --------------------------------------------------------------------- world


def psd(seed):
    rs = np.random.RandomState(seed)
    a = rs.normal(size=(6, 6)) * (np.array([1e2, 1e2, 1e2, 1e-1, 1e-1, 1e-1]) * np.exp(rs.uniform(-1, 1, size=6)))[:, None]
    m = a @ a.T
    return (m + m.T) / 2


def attach_cov(node, sv, how, seed):
    if not how:
        return
    if how == "same":
        fr = sv.frame
    elif how == "other":
        fr = node.frames.get_frame("EME2000" if sv.frame.name != "EME2000" else "TEME")
    else:
        fr = how
    sv.cov = node.Cov(sv, psd(seed), fr)


def build(node, spec, ctx):
    """Build the object described by `spec` on `node` (inside `with node`)."""
    k = spec["kind"]
    td = node.timedelta
    if k == "omm":
        orb = node.Tle(world.tle_text(spec["tle"])).orbit()
        if "name" in spec:
            orb.name = spec["name"]
            orb.cospar_id = spec["cospar_id"]
        attach_cov(node, orb, spec.get("cov"), spec["cov_seed"])
        if spec.get("user"):
            orb._data["ccsds_user_defined"] = dict(spec["user"])
        return orb
    if k == "opm":
        date = world.mk_date(node, spec["epoch"], spec["scale"])
        sv = node.StateVector(spec["kep"], date, "keplerian", "EME2000")
        if spec["frame"] != "EME2000":
            sv.frame = spec["frame"]
        if spec["frame"] in BODY:
            sv.form = "cartesian"
        elif spec["form"] != "keplerian":
            sv.form = "cartesian"
            f = spec["form"]
            if f != "cartesian":
                sv.form = f
        if not np.all(np.isfinite(np.asarray(sv, dtype=float))):
            sv.form = "cartesian"
        if spec["type"] == "orbit":
            sv = sv.as_orbit(node.mod("beyond.propagators.kepler").Kepler())
        if "name" in spec:
            sv.name = spec["name"]
            sv.cospar_id = spec["cospar_id"]
        attach_cov(node, sv, spec.get("cov"), spec["cov_seed"])
        for what, fr in spec.get("cov_history", []):
            if what == "cov":
                sv.cov.frame = fr
            else:
                sv.frame = fr
                sv.form = "cartesian"
            ctx.probe("object_with_frame_history_written")
        man = node.mod("beyond.orbits.man")
        ms = []
        for m in spec.get("mans", []):
            d = date + td(seconds=m["off_s"])
            if m["type"] == "imp":
                ms.append(man.ImpulsiveMan(d, m["dv"], frame=m["frame"], comment=m["comment"]))
            else:
                ms.append(man.ContinuousMan(d, td(seconds=m["dur_s"]), dv=m["dv"], frame=m["frame"], comment=m["comment"], date_pos=m["date_pos"]))
        if ms:
            sv.maneuvers = ms
        if spec.get("user"):
            sv._data["ccsds_user_defined"] = dict(spec["user"])
        return sv
    if k == "oem":
        out = []
        for es in spec["ephems"]:
            date = world.mk_date(node, spec["epoch"], spec["scale"])
            orb = node.Orbit(es["kep"], date, "keplerian", "EME2000", node.mod("beyond.propagators.kepler").Kepler())
            pts = []
            for i in range(es["npts"]):
                p = orb.propagate(date + td(seconds=i * es["step_s"]))
                p = p.as_statevector() if hasattr(p, "as_statevector") else p
                if es["frame"] != "EME2000":
                    p.frame = es["frame"]
                p.form = es["form"] if es["frame"] not in BODY else "cartesian"
                if not np.all(np.isfinite(np.asarray(p, dtype=float))):
                    p.form = "cartesian"
                pts.append(p)
            for idx, how in zip(es["cov_idx"], es["cov_frames"]):
                attach_cov(node, pts[idx], how, es["cov_seed"] + idx)
            eph = node.Ephem(pts, method=es["method"], order=es["order"])
            if es.get("name"):
                eph.name = es["name"]
                eph.cospar_id = es["cospar_id"]
            elif "name" in spec and not es.get("anonymous"):
                eph.name = spec["name"]
                eph.cospar_id = spec["cospar_id"]
            out.append(eph)
        return out[0] if len(out) == 1 else out
    # tdm
    ms_mod = node.mod("beyond.utils.measures")
    rs = np.random.RandomState(spec["seed"])
    mset = ms_mod.MeasureSet([])
    date0 = world.mk_date(node, spec["epoch"], spec["scale"])
    for q_, path in enumerate(spec["paths"]):
        date = date0
        if spec.get("path_scales"):
            date = world.mk_date(node, spec["epoch"], spec["path_scales"][q_])
        for i in range(spec["npts"]):
            d = date + td(seconds=i * spec["step_s"])
            for t in spec["types"]:
                if t == "range":
                    mset.append(ms_mod.Range(path, d, float(rs.uniform(4e5, 4e6))))
                elif t == "az":
                    mset.append(ms_mod.Azimut(path, d, float(rs.uniform(-3.1, 3.1))))
                elif t == "el":
                    mset.append(ms_mod.Elevation(path, d, float(rs.uniform(0.0, 1.5))))
                else:
                    mset.append(ms_mod.Doppler(path, d, float(rs.uniform(-7000, 7000))))
    return mset


# ------------------------------------------------------------ description


def d_date(d):
    dt = d.datetime
    return {"scale": d.scale.name, "reading": (dt - type(dt)(1970, 1, 1)).total_seconds() if False else [dt.toordinal(), dt.hour * 3600 + dt.minute * 60 + dt.second + dt.microsecond * 1e-6]}


def date_diff(a, b):
    return (a["reading"][0] - b["reading"][0]) * 86400.0 + (a["reading"][1] - b["reading"][1])


def d_cov(c, sv):
    if c is None:
        return None
    f = c.frame
    name = f if isinstance(f, str) else f.name
    return {"frame": name, "values": np.array(c, dtype=float)}


def d_state(sv, omm=False):
    cart = np.array(sv.copy(form="cartesian"), dtype=float) if not omm else None
    d = {
        "date": d_date(sv.date),
        "frame": sv.frame.name,
        "orient": sv.frame.orientation.name,
        "center": sv.frame.center.name,
        "name": sv._data.get("name", "N/A"),
        "cospar_id": sv._data.get("cospar_id", "N/A"),
        "cart": cart,
        "cov": d_cov(sv._data.get("cov"), sv),
        "user": dict(sv._data.get("ccsds_user_defined") or {}),
        "mans": [],
    }
    for m in sv._data.get("maneuvers") or []:
        cont = hasattr(m, "duration")
        d["mans"].append(
            {
                "kind": "cont" if cont else "imp",
                "start": d_date(m.start if cont else m.date),
                "duration": m.duration.total_seconds() if cont else 0.0,
                "dv": np.array(m._dv, dtype=float),
                "frame": m.frame,
                "comment": m.comment,
            }
        )
    if omm:
        v = np.array(sv.copy(form="tle"), dtype=float)
        d["tle_elems"] = v
        for k in ("bstar", "ndot", "ndotdot", "norad_id", "revolutions", "element_nb"):
            val = sv._data.get(k)
            if val is None and "tle" in sv._data:
                val = getattr(sv._data["tle"], k, None)
            d[k] = val
        d["propagator"] = type(sv.propagator).__name__ if hasattr(sv, "propagator") else None
    return d


def describe(obj, kind):
    if kind == "opm":
        return {"kind": "opm", "state": d_state(obj)}
    if kind == "omm":
        return {"kind": "omm", "state": d_state(obj, omm=True)}
    if kind == "oem":
        ephs = obj if isinstance(obj, (list, tuple)) else [obj]
        out = []
        for e in ephs:
            out.append(
                {
                    "method": str(e.method).lower(),
                    "order": int(e.order),
                    "name": getattr(e, "name", "N/A"),
                    "cospar_id": getattr(e, "cospar_id", "N/A"),
                    "points": [d_state(p) for p in e],
                }
            )
        return {"kind": "oem", "ephems": out}
    out = []
    sets = obj if (isinstance(obj, list) and obj and not hasattr(obj[0], "value")) else [obj]
    for ms in sets:  # a message with several paths is read back as a list of measure sets: flattened, only the measures are compared
        for m in ms:
            out.append({"type": type(m).__name__, "path": list(m.path), "date": d_date(m.date), "value": float(m.value)})
    return {"kind": "tdm", "measures": out, "sets": len(sets)}


HOPS = [1]  # number of write/read cycles between the two descriptions being compared: "to the microsecond" holds per cycle
EXACT_DATES = [False]  # UTC / TAI readings without IERS tables: TAI - UTC is 0, nothing is added to the reading, it comes back as written


def cmp_date(a, b, where, diffs):
    if a["scale"] != b["scale"]:
        diffs.append((where + ".scale", f"{a['scale']} -> {b['scale']}"))
    elif abs(date_diff(a, b)) > (0.4e-6 if (EXACT_DATES[0] and a["scale"] in ("UTC", "TAI")) else TOLERANCES["epoch_s"] * HOPS[0]):
        diffs.append((where, f"clock reading moved by {date_diff(b, a):.6f} s"))


def norm_name(x):
    return "N/A" if x in (None, "", "N/A") else x


def cmp_state(a, b, where, diffs, omm=False):
    cmp_date(a["date"], b["date"], where + ".epoch", diffs)
    for k in ("frame", "orient", "center"):
        if a[k] != b[k]:
            diffs.append((where + "." + k, f"{a[k]} -> {b[k]}"))
    for k in ("name", "cospar_id"):
        if norm_name(a[k]) != norm_name(b[k]):
            diffs.append((where + "." + k, f"{a[k]!r} -> {b[k]!r}"))
    if not omm:
        dp = float(np.max(np.abs(a["cart"][:3] - b["cart"][:3])))
        dv = float(np.max(np.abs(a["cart"][3:] - b["cart"][3:])))
        if dp > TOLERANCES["pos_m"] * 1.02:
            diffs.append((where + ".position", f"differs by {dp:.6f} m"))
        if dv > TOLERANCES["vel_m_s"] * 1.02:
            diffs.append((where + ".velocity", f"differs by {dv:.6f} m/s"))
    ca, cb = a["cov"], b["cov"]
    if (ca is None) != (cb is None):
        diffs.append((where + ".cov", "covariance " + ("lost" if cb is None else "appeared")))
    elif ca is not None:
        fa = "QSW" if ca["frame"] == "RSW" else ca["frame"]
        fb = "QSW" if cb["frame"] == "RSW" else cb["frame"]
        if fa != fb:
            diffs.append((where + ".cov.frame", f"{ca['frame']} -> {cb['frame']}"))
        else:
            va, vb = ca["values"], cb["values"]
            tol = TOLERANCES["cov_rel"] * np.abs(va) + 1e-30
            if np.any(np.abs(va - vb) > tol):
                diffs.append((where + ".cov.values", f"max relative change {float(np.max(np.abs(va - vb) / (np.abs(va) + 1e-300))):.3e}"))
    if a["user"] != b["user"]:
        diffs.append((where + ".user_defined", f"{a['user']} -> {b['user']}"))
    if len(a["mans"]) != len(b["mans"]):
        diffs.append((where + ".maneuvers", f"{len(a['mans'])} -> {len(b['mans'])} maneuvers"))
    else:
        for i, (ma, mb) in enumerate(zip(a["mans"], b["mans"])):
            w = f"{where}.man[{i}]"
            if ma["kind"] != mb["kind"]:
                diffs.append((w + ".kind", f"{ma['kind']} -> {mb['kind']}"))
            cmp_date(ma["start"], mb["start"], w + ".epoch", diffs)
            if abs(ma["duration"] - mb["duration"]) > TOLERANCES["duration_s"]:
                diffs.append((w + ".duration", f"{ma['duration']} -> {mb['duration']}"))
            if float(np.max(np.abs(ma["dv"] - mb["dv"]))) > TOLERANCES["dv_m_s"] * 1.02:
                diffs.append((w + ".dv", f"{ma['dv']} -> {mb['dv']}"))
            if ma["frame"] != mb["frame"]:
                diffs.append((w + ".frame", f"{ma['frame']} -> {mb['frame']}"))
            if (ma["comment"] or None) != (mb["comment"] or None):
                diffs.append((w + ".comment", f"{ma['comment']!r} -> {mb['comment']!r}"))
    if omm:
        ea, eb = a["tle_elems"], b["tle_elems"]
        # i, Omega, e, omega, M, n at their printed precision
        deg = np.pi / 180
        tol = np.array([0.51e-4 * deg, 0.51e-4 * deg, 0.51e-7, 0.51e-4 * deg, 0.51e-4 * deg, 0.51e-8 * 2 * np.pi / 86400])
        d = np.abs(ea - eb)
        d[[0, 1, 3, 4]] = np.minimum(d[[0, 1, 3, 4]], np.abs(d[[0, 1, 3, 4]] - 2 * np.pi))
        if np.any(d > tol):
            diffs.append((where + ".mean_elements", f"{ea} -> {eb}"))
        for k, t in (("bstar", 0.51e-9), ("ndot", 1.02e-8), ("ndotdot", 0.31)):
            if a[k] is None or b[k] is None or abs(float(a[k]) - float(b[k])) > t:
                diffs.append((where + "." + k, f"{a[k]} -> {b[k]}"))
        for k in ("norad_id", "revolutions", "element_nb"):
            if a[k] is None or b[k] is None or int(a[k]) != int(b[k]):
                diffs.append((where + "." + k, f"{a[k]} -> {b[k]}"))
        if a["propagator"] != b["propagator"]:
            diffs.append((where + ".propagator", f"{a['propagator']} -> {b['propagator']}"))


def compare(a, b):
    diffs = []
    if a["kind"] != b["kind"]:
        return [("type", f"{a['kind']} -> {b['kind']}")]
    if a["kind"] in ("opm", "omm"):
        cmp_state(a["state"], b["state"], a["kind"], diffs, omm=a["kind"] == "omm")
    elif a["kind"] == "oem":
        if len(a["ephems"]) != len(b["ephems"]):
            return [("oem.count", f"{len(a['ephems'])} -> {len(b['ephems'])} ephemerides")]
        for i, (ea, eb) in enumerate(zip(a["ephems"], b["ephems"])):
            w = f"oem[{i}]"
            if ea["method"] != eb["method"]:
                diffs.append((w + ".interpolation", f"{ea['method']} -> {eb['method']}"))
            elif ea["method"] != "linear" and ea["order"] != eb["order"]:
                diffs.append((w + ".interpolation_degree", f"{ea['order']} -> {eb['order']}"))
            for k in ("name", "cospar_id"):
                if norm_name(ea[k]) != norm_name(eb[k]):
                    diffs.append((w + "." + k, f"{ea[k]!r} -> {eb[k]!r}"))
            if len(ea["points"]) != len(eb["points"]):
                diffs.append((w + ".points", f"{len(ea['points'])} -> {len(eb['points'])} points"))
                continue
            for j, (pa, pb) in enumerate(zip(ea["points"], eb["points"])):
                pa = dict(pa, name="N/A", cospar_id="N/A", user={})
                pb = dict(pb, name="N/A", cospar_id="N/A", user={})
                cmp_state(pa, pb, f"{w}.point[{j}]", diffs)
    else:
        ma, mb = a["measures"], b["measures"]
        if len(ma) != len(mb):
            return [("tdm.count", f"{len(ma)} -> {len(mb)} measures")]
        key = lambda m: (tuple(m["path"]), m["date"]["reading"][0], round(m["date"]["reading"][1], 5), m["type"])  # noqa
        for x, y in zip(sorted(ma, key=key), sorted(mb, key=key)):
            w = f"tdm.{x['type']}"
            if x["type"] != y["type"] or x["path"] != y["path"]:
                diffs.append((w + ".type_or_path", f"{x['type']} {x['path']} -> {y['type']} {y['path']}"))
                continue
            cmp_date(x["date"], y["date"], w + ".epoch", diffs)
            if x["type"] in ("Azimut", "Elevation"):
                dv = abs(x["value"] - y["value"])
                dv = min(dv, abs(dv - 2 * np.pi))
                if dv > np.radians(0.0051):
                    diffs.append((w + ".value", f"{x['value']} -> {y['value']}"))
            elif abs(x["value"] - y["value"]) > 0.51e-3:
                diffs.append((w + ".value", f"{x['value']} -> {y['value']}"))
    return diffs


# ----------------------------------------------------------------------- run


class World:
    def __init__(self, plan, ctx):
        self.plan, self.ctx = plan, ctx
        self.disk = SimDisk()
        self.real_eop = bool(plan["knobs"].get("real_eop"))
        EXACT_DATES[0] = not self.real_eop
        if self.real_eop:
            load_real_eop(self.disk)
        self.n_nodes = 0
        self.all_nodes = []
        self.decoy = None
        self.decoyed = set()

    def process(self, cfg_fmt=None, clock=None):
        """A new OS process: fresh registries, its own configuration and wall clock."""
        self.n_nodes += 1
        n = Node(f"p{self.n_nodes}", disk=self.disk, preload=("beyond.io.ccsds",))
        self.all_nodes.append(n)
        with n:
            cfg = {"eop": {"missing_policy": "pass"}}
            if self.real_eop:
                cfg["eop"]["folder"] = "/eop"
            if cfg_fmt:
                cfg["io"] = {"ccsds_default_format": cfg_fmt}
            if self.plan["knobs"]["spec"].get("jpl"):
                cfg["env"] = {"jpl": {"files": list(JPL_FILES), "dynamic_frames": True}}
            n.config.update(cfg)
            if self.plan["knobs"]["spec"].get("jpl"):
                n.mod("beyond.env.jpl").create_frames()
        if clock:
            from datetime import datetime

            n.clock.set(datetime(*clock))
            self.ctx.clock_seen(datetime(*clock))
        return n

    def close(self):
        for n in self.all_nodes:
            try:
                bsp = n.modules.get("beyond.env.jpl")
                for sp in (getattr(bsp.Bsp._instance, "_spk", []) or []) if bsp else []:
                    sp.close()
            except Exception:  # noqa
                pass

    def write(self, node, obj, enc, path, extra=None):
        """dump() to the simulated disk.  Returns (text, exception)."""
        ccsds = node.mod("beyond.io.ccsds")
        kw = dict(extra or {})
        if enc.startswith("arg:"):
            kw["fmt"] = enc[4:]
        fp = io.StringIO()
        self.nwrites = getattr(self, "nwrites", 0) + 1
        try:
            if self.nwrites % 2:
                ccsds.dump(obj, fp, **kw)  # to a file object
                text = fp.getvalue()
            else:
                text = ccsds.dumps(obj, **kw)  # to a string
        except Exception as e:  # noqa
            return None, e
        self.disk.write(path, text)
        return text, None

    def read(self, node, path):
        ccsds = node.mod("beyond.io.ccsds")
        if getattr(self, "decoy", None) and path != self.decoy and node.name not in self.decoyed:
            self.decoyed.add(node.name)
            try:
                ccsds.load(io.StringIO(self.disk.read(self.decoy)))
                self.ctx.fault("msg_other_message_read_first")
            except Exception:  # noqa
                pass
        fp = io.StringIO(self.disk.read(path))
        self.nreads = getattr(self, "nreads", 0) + 1
        try:
            return (ccsds.load(fp) if self.nreads % 2 else ccsds.loads(self.disk.read(path))), None
        except Exception as e:  # noqa
            return None, e


def rng_free_choice(plan):
    """Encoding of the decoy message: derived from the plan, no randomness at run time."""
    return enc_of(plan["ops"][0]["enc"])


def enc_of(enc):
    return "kvn" if enc == "default" else enc[4:]


def classify(spec):
    """Static features of the object, used in fingerprints (so that a known finding is keyed by what fails)."""
    k = spec["kind"]
    f = {"msg": k}
    if k == "file":
        f["msg"] = spec["file"].split(".")[0].split("_")[0].split("-")[0]
        f["file"] = spec["file"]
    if k == "opm":
        f["man_frames"] = ",".join(sorted({str(m["frame"]) for m in spec["mans"]})) if spec["mans"] else "-"
        f["cov"] = spec.get("cov") or "-"
    elif k == "oem":
        f["npts"] = "1" if any(e["npts"] == 1 for e in spec["ephems"]) else "n"
        f["ncov"] = "1" if any(len(e["cov_idx"]) == 1 for e in spec["ephems"]) else ("0" if all(len(e["cov_idx"]) == 0 for e in spec["ephems"]) else "n")
        f["form"] = "cartesian" if all(e["form"] == "cartesian" for e in spec["ephems"]) else "other"
    elif k == "tdm":
        f["doppler"] = "doppler" in spec["types"]
    return f


def field_class(name):
    return re.sub(r"\[\d+\]", "", name)


def run_plan(plan, ctx):
    w = World(plan, ctx)
    try:
        return _run_plan(plan, ctx, w)
    finally:
        w.close()


def _run_plan(plan, ctx, w):
    spec = plan["knobs"]["spec"]
    kind = spec["kind"]
    feat = classify(spec)
    hops = plan["ops"]
    # ---- the first writer builds the object
    first = hops[0]
    node = w.process(cfg_fmt=first["enc"][4:] if first["enc"].startswith("cfg:") else None, clock=first["clock"])
    if kind == "file":
        with open(os.path.join(DATA_DIR, spec["file"]), encoding="utf-8") as fp:
            w.disk.write("/archive/" + spec["file"], fp.read())
        with node:
            obj, exc = w.read(node, "/archive/" + spec["file"])
            if exc is not None:
                ctx.violate("read-back", dict(feat, kind="stored_example_unreadable", exc=type(exc).__name__), f"the stored example {spec['file']} cannot be read: {type(exc).__name__}: {exc}")
                return _finish(ctx, [kind], plan)
            kind = kind_of(obj, node, "omm" if spec["file"].startswith("omm") else "opm")
            original = describe(obj, kind)
    else:
        with node:
            obj = build(node, spec, ctx)
            original = describe(obj, kind)
    _probe_features(ctx, spec)
    decoy_scale = plan["knobs"].get("decoy_scale")
    decoy_other = bool(plan["knobs"].get("decoy_other"))
    if (decoy_scale and kind in ("opm", "oem", "tdm")) or (decoy_other and kind in ("opm", "omm")):
        # the same clock readings under another time-scale label (and / or another object: other name, other user-defined fields),
        # written first: every reader of this run reads it before the real message
        dspec = dict(spec)
        if decoy_scale and "scale" in spec:
            dspec["scale"] = decoy_scale
        if decoy_other:
            dspec.update(name="DECOY SAT", cospar_id="2001-001Z", user={"DECOY_ONLY": "yes", "FOO": "decoy"})
            ctx.probe("reader_read_a_message_of_another_object_first")
        with node:
            dobj = build(node, dspec, ctx)
            _, dexc = w.write(node, dobj, "arg:" + rng_free_choice(plan), "/msg/decoy")
        if dexc is None:
            w.decoy = "/msg/decoy"
            ctx.probe("reader_read_another_message_first")
    current_desc = original
    sig = [kind]
    for h, hop in enumerate(hops):
        enc = hop["enc"]
        fmt = enc_of(enc)
        sig.append(enc)
        if h > 0:
            # the process that read the previous message writes it again, under its own configuration and clock
            pass
        if enc.startswith("cfg:"):
            ctx.probe("config_default_used")
        elif enc == "default":
            ctx.probe("builtin_default_used")
        path = f"/msg/{h}.{fmt}"
        with node:
            before = describe(obj, kind)
            text, exc = w.write(node, obj, enc, path, extra=hop.get("kwargs"))
        if hop.get("kwargs") and h == 0:
            ctx.probe("dump_keyword_arguments")
            kwa = hop["kwargs"]
            if "name" in kwa:
                # what must be read back is what the keyword arguments said
                if kind in ("opm", "omm"):
                    original["state"] = dict(original["state"], name=kwa["name"], cospar_id=kwa["cospar_id"])
                elif kind == "oem":
                    original["ephems"] = [dict(e, name=kwa["name"], cospar_id=kwa["cospar_id"]) for e in original["ephems"]]
            if text is not None and "originator" in kwa and "VERIF" not in text:
                ctx.violate("write", dict(feat, fmt=fmt, kind="originator_ignored"), f"hop {h}: dump(originator='VERIF') but the header does not carry it")
        fp_base = dict(feat, fmt=fmt, hop="first" if h == 0 else "redump")
        if exc is not None:
            ctx.violate(
                "write-again" if h > 0 else "write",
                dict(fp_base, kind="dump_fails", exc=type(exc).__name__),
                f"hop {h}: dumping the {'re-loaded ' if h else ''}{kind.upper()} object as {fmt.upper()} raised {type(exc).__name__}: {exc}",
            )
            return _finish(ctx, sig, plan)
        ctx.ev("write", h, enc, len(text), hashlib.md5(text.encode()).hexdigest()[:16])
        # the encoding really is the one the hop asked for
        ctx.checks += 1
        is_xml = text.lstrip().startswith("<?xml")
        if is_xml != (fmt == "xml"):
            ctx.violate("configuration", dict(fp_base, kind="wrong_encoding", source=enc.split(":")[0]), f"hop {h}: encoding source '{enc}' but the message is written as {'XML' if is_xml else 'KVN'}")
        # CREATION_DATE comes from the (virtual) wall clock and nothing else does
        m = re.search(r"CREATION_DATE\s*(?:=|>)\s*([0-9T:.\-]+)", text)
        from datetime import datetime

        want = datetime(*hop["clock"]).strftime("%Y-%m-%dT%H:%M:%S.%f")
        ctx.checks += 1
        if m and m.group(1) == want:
            ctx.probe("creation_date_from_virtual_clock")
        else:
            ctx.violate("configuration", dict(fp_base, kind="creation_date_not_from_clock"), f"hop {h}: CREATION_DATE is {m.group(1) if m else None}, the writer's clock says {want}")
        # writing must not change what is written next time (same object, same process)
        with node:
            after = describe(obj, kind)
        d = compare(before, after)
        if d:
            ctx.probe("dump_modified_its_argument")
        # ---- optional: same object in the other encoding, decoded by another fresh process
        if hop.get("both"):
            other_fmt = "xml" if fmt == "kvn" else "kvn"
            with node:
                text2, exc2 = w.write(node, obj, "arg:" + other_fmt, f"/msg/{h}.alt.{other_fmt}", extra=hop.get("kwargs"))
            if exc2 is not None:
                ctx.violate("kvn-equals-xml", dict(feat, fmt=other_fmt, hop="first" if h == 0 else "redump", kind="dump_fails", exc=type(exc2).__name__), f"hop {h}: the object is written as {fmt.upper()} but dumping it as {other_fmt.upper()} raises {type(exc2).__name__}: {exc2}")
            else:
                r2 = w.process()
                with r2:
                    o2, e2 = w.read(r2, f"/msg/{h}.alt.{other_fmt}")
                    if e2 is None:
                        desc2 = describe(o2, kind_of(o2, r2, kind))
                if e2 is not None:
                    ctx.violate("read-back", dict(feat, fmt=other_fmt, hop="first" if h == 0 else "redump", kind="load_fails", exc=type(e2).__name__), f"hop {h}: the {other_fmt.upper()} message just written cannot be read: {type(e2).__name__}: {e2}")
                else:
                    alt = desc2
            ctx.fault("restart")
        # ---- a different, fresh process reads the message (F8: nothing but the disk survives)
        nxt = hops[h + 1] if h + 1 < len(hops) else None
        reader = w.process(cfg_fmt=nxt["enc"][4:] if nxt and nxt["enc"].startswith("cfg:") else None, clock=nxt["clock"] if nxt else None)
        ctx.fault("restart")
        with reader:
            got, exc = w.read(reader, path)
            if exc is None:
                try:
                    got_desc = describe(got, kind_of(got, reader, kind))
                except Exception as e:  # noqa
                    exc = e
        if exc is not None:
            ctx.violate("read-back", dict(fp_base, kind="load_fails", exc=type(exc).__name__), f"hop {h}: the {fmt.upper()} {kind.upper()} message just written cannot be read back: {type(exc).__name__}: {exc}")
            return _finish(ctx, sig, plan)
        ctx.ev("read", h, got_desc["kind"], hashlib.md5(repr(sorted((k, repr(v)) for k, v in got_desc.items())).encode()).hexdigest()[:16])
        ctx.checks += 1
        ctx.probe("hop_compared")
        if h > 0:
            ctx.probe("redump_compared")
            if kind == "omm":
                ctx.probe("omm_redumped")
        HOPS[0] = h + 1
        diffs = compare(original, got_desc)
        HOPS[0] = 1
        for name, detail in diffs[:1]:
            ctx.violate(
                "round-trip",
                dict(fp_base, kind="field_differs", field=field_class(name)),
                f"hop {h} ({' -> '.join(x['enc'] for x in hops[: h + 1])}): {name}: {detail} ({len(diffs)} field(s) differ: {', '.join(n for n, _ in diffs[:6])})",
            )
        if hop.get("both") and exc2 is None and e2 is None:
            ctx.checks += 1
            ctx.probe("kvn_xml_compared")
            dd = compare(got_desc, alt)
            for name, detail in dd[:1]:
                ctx.violate("kvn-equals-xml", dict(feat, hop="first" if h == 0 else "redump", kind="encodings_decode_differently", field=field_class(name)), f"hop {h}: KVN and XML of the same object decode differently: {name}: {detail}")
        node, obj = reader, got
        ctx.ops_done += 1
    return _finish(ctx, sig, plan)


def kind_of(obj, node, default):
    ephem_cls = node.Ephem
    if isinstance(obj, ephem_cls) or (isinstance(obj, list) and obj and isinstance(obj[0], ephem_cls)):
        return "oem"
    ms = node.mod("beyond.utils.measures").MeasureSet
    if isinstance(obj, ms) or (isinstance(obj, list) and obj and isinstance(obj[0], ms)):
        return "tdm"
    if isinstance(obj, node.StateVector):
        if default == "omm":
            return "omm"
        return "opm"
    return default


def _probe_features(ctx, spec):
    k = spec["kind"]
    if k == "file":
        ctx.probe("stored_example_message")
        return
    if spec.get("jpl"):
        ctx.probe("body_centred_frame")
    if "name" not in spec:
        ctx.probe("absent_name")
    if spec.get("user"):
        ctx.probe("user_defined_fields")
    if k in ("opm", "omm"):
        c = spec.get("cov")
        if c in ("QSW", "TNW"):
            ctx.probe("cov_in_local_frame")
        elif c == "other":
            ctx.probe("cov_in_other_frame")
    if k == "opm":
        for m in spec["mans"]:
            ctx.probe({"QSW": "man_qsw", "TNW": "man_tnw", None: "man_inertial"}[m["frame"]])
            if m["type"] == "cont":
                ctx.probe("man_continuous")
    if k == "oem":
        if any(e["npts"] == 1 for e in spec["ephems"]):
            ctx.probe("single_point_oem")
        if any(len(e["cov_idx"]) == 1 for e in spec["ephems"]):
            ctx.probe("single_cov_oem")
        if len(spec["ephems"]) > 1:
            ctx.probe("multi_ephem_oem")
    if k == "tdm" and len(spec["paths"]) > 1:
        ctx.probe("tdm_two_paths")


def _finish(ctx, sig, plan):
    spec = plan["knobs"]["spec"]
    f = classify(spec)
    ctx.sig.extend(sig)
    ctx.sig.append(sorted(f.items()))
    ctx.sig.append((spec.get("scale"), spec.get("frame"), plan["knobs"].get("real_eop")))
    ctx.nontrivial = bool(ctx.probes.get("hop_compared"))
    ctx.state(spec["kind"], tuple(sig[1:]), tuple(sorted((k, str(v)) for k, v in f.items())), spec.get("scale", "-"), spec.get("frame", "-"))


def simplify(plan):
    ops = plan["ops"]
    for idx, o in enumerate(ops):
        if o.get("both"):
            yield dict(plan, ops=ops[:idx] + [dict(o, both=False)] + ops[idx + 1 :])
        if o["enc"] not in ("arg:kvn", "arg:xml"):
            yield dict(plan, ops=ops[:idx] + [dict(o, enc="arg:" + enc_of(o["enc"]))] + ops[idx + 1 :])
    spec = plan["knobs"]["spec"]
    kn = plan["knobs"]
    if kn.get("real_eop"):
        yield dict(plan, knobs=dict(kn, real_eop=False))
    if kn.get("decoy_scale"):
        yield dict(plan, knobs=dict(kn, decoy_scale=None))
    for key, val in (("cov_history", None), ("cov", None), ("user", None), ("mans", []), ("form", "cartesian"), ("type", "sv")):
        if spec.get(key) and spec.get(key) != val:
            yield dict(plan, knobs=dict(kn, spec=dict(spec, **{key: val})))
    if spec["kind"] == "opm" and len(spec.get("mans", [])) > 1:
        for i in range(len(spec["mans"])):
            yield dict(plan, knobs=dict(kn, spec=dict(spec, mans=spec["mans"][:i] + spec["mans"][i + 1 :])))
    if spec["kind"] == "oem":
        if len(spec["ephems"]) > 1:
            yield dict(plan, knobs=dict(kn, spec=dict(spec, ephems=spec["ephems"][:1])))
        for i, e in enumerate(spec["ephems"]):
            if e["cov_idx"]:
                yield dict(plan, knobs=dict(kn, spec=dict(spec, ephems=spec["ephems"][:i] + [dict(e, cov_idx=[], cov_frames=[])] + spec["ephems"][i + 1 :])))
    if spec["kind"] == "tdm" and len(spec["paths"]) > 1:
        yield dict(plan, knobs=dict(kn, spec=dict(spec, paths=spec["paths"][:1])))
    if "name" in spec and spec["kind"] != "tdm":
        s2 = dict(spec)
        s2.pop("name")
        s2.pop("cospar_id")
        yield dict(plan, knobs=dict(kn, spec=s2))
