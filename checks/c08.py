"""C08 - propagation and iteration contract; independence from call history.

Workload: a pool of orbits (every propagator kind, some sharing one propagator
instance), ephemerides made from them and listener objects; the plan interleaves
next() on up to three live iterations over shared objects, inserts propagate
calls between steps, cancels (close) or abandons iterations and re-uses the
objects (DESIGN.md 5.2)."""

from checks import itersim
from checks.gen_iter import gen_iter_plan

LEVEL = "exploration"
TIERS = {
    "quick": {"runs": 3000, "max_wall": 170, "chunk": 10},
    "thorough": {"runs": 150000, "max_wall": 1700, "chunk": 20},
}
RULE = (
    "one run = one seeded plan: a pool of 2-4 orbits/ephemerides (SGP4 near-earth and deep-space, Kepler, J2, none, KeplerNum, "
    "Clohessy-Wiltshire, ephemeris; some pairs sharing one propagator instance) and 4-12 scheduled operations "
    "(start/next/drain/close/abandon of lazily consumed iterations, propagate, ephem, cache clears). distinct = distinct hash of the "
    "per-run sequence (op kind, propagator kind, call kind, #live iterations, fault kind); non-trivial = at least two iterations "
    "alive at the same time on shared objects, or a cancel/abandon followed by re-use"
)
STATE_MEASURE = "(propagator kind, call kind, direction x start-vs-epoch class, #live iterations, listeners yes/no)"
PROBES = ["listener_reused_sequentially", "interleaved_shared_listener_interference", "value_within_tolerance", "expected_exception_raised", "event_items", "two_live_tasks_same_object", "reuse_after_cancel", "shared_propagator_interleaved", "keplernum_retropolation", "numerical_orbit_with_maneuvers", "date_range_object_shared", "ephemeris_order_changed_after_use", "yielded_points_used_as_new_orbits"]
REAL_VS_STUB = "real: every propagator, Orbit/Ephem iteration code, Date, frames, listeners, sgp4 library; stub: wall clock (virtual), EOP storage (simulated disk; zeros by policy 'pass' in most runs, real IERS tables in some); oracle: pristine second node executing one direct propagation per yielded state + an exact integer-millisecond date-range model"
ASSUMPTIONS = ["the fresh-node differential cannot see an error that is identical with and without history (numerical correctness is C05-C07, not applicable here)", "KeplerNum values are compared within 5 mm / 5 um/s (Lagrange re-sampling), on a sample of the yielded items"]
SAMPLED_ONLY = []
TOLERANCES = {"analytical propagators, ephemeris interpolation": "bit-exact", "ephemeris stored point vs interpolation at its own date": "1e-6 m / 1e-9 m/s", "KeplerNum vs direct propagation (different integration grids)": "rk4@30s 3 m, rk4@60s 45 m, rk4@120s 5.5 km, adaptive 100 m = 10x calibration maxima", "KeplerNum vs the same call alone on a pristine node": "bit-exact", "dates": "3 microseconds"}


def gen_plan(rng, tier, i):
    return gen_iter_plan(rng, mode="C08", tier=tier)


def run_plan(plan, ctx):
    sim = itersim.Sim(plan, ctx, "C08")
    sim.run()
    ctx.nontrivial = any(ctx.probes.get(p) for p in ("two_live_tasks_same_object", "reuse_after_cancel", "shared_propagator_interleaved", "listener_reused_sequentially"))


def simplify(plan):
    from checks.gen_iter import simplify_iter

    yield from simplify_iter(plan)
