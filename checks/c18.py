"""C18 - solar-system body positions match the JPL ephemeris.

One node (restarted at seeded points) configured with a seeded subset of the kernel / constant
files - possibly faulted (F10) - runs a seeded history of create_frames() calls (explicit and
through dynamic frame lookups), get_orbit / get_frame / frame conversions between every ordered
pair of bodies, in-place mutation of what was handed out, registrations of other frames on the
same centre graph (F9), configuration flips after first use (F6) and restarts (F8).  Oracle:
direct chaining of the kernel's segments by the model (own jplephem handle on the intact file,
own TDB), plus a pristine-node differential for the analytic Sun / Moon (DESIGN.md 5.9)."""

import os
import shutil
import tempfile

import numpy as np

from sim.node import Node, SimDisk, load_real_eop, REPO
from sim.models import timescales as ts
from sim import world
from sim.core import fhex

LEVEL = "exploration"
TIERS = {
    "quick": {"runs": 1200, "max_wall": 170, "chunk": 10},
    "thorough": {"runs": 80000, "max_wall": 1700, "chunk": 20},
}
RULE = (
    "one run = one configuration (kernel alone / with one or both constant files, dynamic_frames on or off, zero or real IERS EOP, optionally one file "
    "fault: missing, empty, truncated kernel, damaged constant file) and a seeded history of 5..12 operations: create_frames() again, get_orbit, "
    "get_orbit + in-place mutation + get_orbit again, conversions of a probe state between ordered pairs of the kernel's 14 centres (and EME2000) in "
    "both directions at dates of 2000-2020 (midnights emphasised), dynamic lookups of known and unknown frame names, station / orbit-frame "
    "registrations in between, configuration flips after first use, restarts, analytic Sun / Moon evaluations interleaved. distinct = distinct (config, "
    "operation kinds, body pairs) signatures; non-trivial = create_frames ran more than once, or a registration / flip / restart / fault preceded a judged vector"
)
STATE_MEASURE = "(files configured, dynamic_frames, fault kind, ordered body pair, direction, date class)"
PROBES = [
    "vector_checked", "pair_both_directions", "create_frames_reentered", "dynamic_lookup_created_frames", "unknown_frame_refused", "mutated_then_queried_again",
    "registration_interleaved", "config_flip_after_first_use", "restart", "kernel_fault_fired", "without_pck", "date_last_minute_of_day", "analytic_history_independent",
    "analytic_within_series_accuracy", "builtin_frame_to_body", "analytic_other_body_on_neighbouring_days", "reversed_propagator_checked", "non_cartesian_state_changed_body", "frame_attached_to_a_jpl_orbit", "kernel_frame_served_after_analytic_namesake", "pickled_body_state_converted",
    "kernel_variant_type3", "kernel_variant_reordered", "kernel_variant_split", "kernel_variant_split_reordered", "kernel_variant_upper", "kernel_variant_geomoon", "kernel_variant_override", "kernel_variant_ghost_first", "orbit_changed_in_place_after_as_frame", "body_table_generated", "constant_files_upper_case_extension", "centre_offset_asked_directly", "propagated_after_in_place_change",
]
REAL_VS_STUB = "real: beyond.env.jpl (Bsp/Pck singletons, JplPropagator, create_frames, get_orbit, get_frame), frames/centres routing, Date, jplephem reading the real DE403 2000-2020 kernel and the real PCK text files (faulted copies in a scratch directory); stub: none; model: own jplephem handle on the intact kernel chained segment by segment, own TDB (sim/models/timescales.py)"
ASSUMPTIONS = [
    "jplephem is trusted (it evaluates the Chebyshev segments for both the library and the model)",
    "the library passes the TDB Julian date as one float (resolution 40 us): the tolerance on a vector is 1e-3 m + 1e-12 |r| + |v| x 100 us, i.e. two units in the last place of the Julian date (and 1e-9 m/s + |a| x 100 us on velocities)",
]
SAMPLED_ONLY = ["analytic Sun / Moon against DE403 within the stated series accuracies, and velocity = central difference of position: pure numerics, sampled at the run's dates"]
TOLERANCES = {"pos_m": 1e-3, "pos_rel": 1e-12, "jd_slack_s": 100e-6, "vel_m_s": 1e-9}

JPL_DIR = os.path.join(REPO, "tests", "data", "jpl")
BSP = "de403_2000-2020.bsp"
PCKS = ["pck00010.tpc", "gm_de431.tpc"]

_model = {}
_variants = {}

KERNEL_VARIANTS = ("stock", "type3", "reordered", "split", "split_reordered", "upper", "geomoon", "override", "ghost_first")


def _variant_dir():
    """Directory holding the rewritten kernels of this batch (created by batch_setup in the parent process and handed to the forked
    workers through the environment; a lone --one / --replay execution creates its own and removes it at exit)."""
    d = os.environ.get("VERIF_C18_VARIANTS")
    if d and os.path.isdir(d):
        return d
    import atexit

    base = os.environ.get("VERIF_SCRATCH") or tempfile.gettempdir()
    d = tempfile.mkdtemp(prefix="c18_kernels_", dir=base)
    os.environ["VERIF_C18_VARIANTS"] = d
    owner = os.getpid()
    atexit.register(lambda: shutil.rmtree(d, ignore_errors=True) if os.getpid() == owner else None)
    return d


def _new_daf(fp, old):
    from jplephem.daf import DAF

    fp.write(old.read_record(1))
    fp.write(b"rewritten by the C18 check\0\004".ljust(1024, b" "))
    fp.write(b"\0" * 1024)
    fp.write(b" " * 1024)
    fp.seek(0)
    d = DAF(fp)
    d.fward = d.bward = 3
    d.free = (d.fward + 1) * (1024 // 8) + 1
    d.write_file_record()
    return d


def _write_kernel(dst, picks, as_type3=False, special=None):
    """Write the segments `picks` (indices into the stock file's summaries, in that order) of the stock kernel to dst; as type 3 the
    records get velocity polynomials = exact derivatives of the position polynomials, in km/s (legal, read by jplephem)."""
    from jplephem.spk import SPK
    from numpy.polynomial import chebyshev

    src = SPK.open(os.path.join(JPL_DIR, BSP))
    old = src.daf
    summaries = list(old.summaries())
    tmp = dst + f".tmp{os.getpid()}"
    with open(tmp, "w+b") as fp:
        d = _new_daf(fp, old)
        for k in picks:
            name, values = summaries[k]
            start, end = values[-2], values[-1]
            if special == "geomoon" and values[2] == 301:
                # the Moon given relative to the Earth (399 -> 301) instead of the Earth-Moon barycentre: same record layout for both
                # bodies in this file, so the coefficients are subtracted record by record
                e_name, e_values = [sv_ for sv_ in summaries if sv_[1][2] == 399][0]
                init, intlen, rsize, n = old.read_array(end - 3, end)
                rsize, n = int(rsize), int(n)
                moon = np.array(old.read_array(start, end - 4)).reshape(n, rsize)
                earth = np.array(old.read_array(e_values[-2], e_values[-1] - 4)).reshape(n, rsize)
                moon[:, 2:] = moon[:, 2:] - earth[:, 2:]
                d.add_array(name, (values[0], values[1], 301, 399, values[4], 2, 0, 0), np.concatenate((moon.ravel(), [init, intlen, rsize, n])))
                continue
            if special == "shift" :
                # another solution for the same pair: the x coordinate moved by 1000 km (constant term of each record)
                init, intlen, rsize, n = old.read_array(end - 3, end)
                rsize, n = int(rsize), int(n)
                rec = np.array(old.read_array(start, end - 4)).reshape(n, rsize)
                rec[:, 2] += 1000.0
                d.add_array(name, tuple(values[:6]) + (0, 0), np.concatenate((rec.ravel(), [init, intlen, rsize, n])))
                continue
            if not as_type3:
                d.add_array(name, tuple(values[:6]) + (0, 0), np.array(old.read_array(start, end)))
                continue
            init, intlen, rsize, n = old.read_array(end - 3, end)
            rsize, n = int(rsize), int(n)
            ncoef = (rsize - 2) // 3
            rec = np.array(old.read_array(start, end - 4)).reshape(n, rsize)
            new = np.zeros((n, 2 + 6 * ncoef))
            new[:, :rsize] = rec
            radius = rec[:, 1]
            for c_ in range(3):
                c = rec[:, 2 + c_ * ncoef : 2 + (c_ + 1) * ncoef]
                dc = chebyshev.chebder(c, axis=1) / radius[:, None]
                new[:, 2 + (3 + c_) * ncoef : 2 + (3 + c_) * ncoef + ncoef - 1] = dc
            d.add_array(name, tuple(values[:5]) + (3, 0, 0), np.concatenate((new.ravel(), [init, intlen, new.shape[1], n])))
    src.close()
    os.replace(tmp, dst)


def kernel_files(variant):
    """Paths of the .bsp file(s) of a kernel variant: the same 15 segments as the stock DE403 excerpt, stored as type 3 records, in the
    reverse order (children before their parents), or spread over two files (in file order / children first)."""
    if variant in (None, "stock"):
        return [os.path.join(JPL_DIR, BSP)]
    if variant in _variants and all(os.path.exists(f) for f in _variants[variant]):
        return _variants[variant]
    if variant == "ghost_first":
        # a file that does not exist listed before the kernel: skipped with a warning, the kernel listed after it is served
        return ["/nonexistent/ghost_kernel.bsp", os.path.join(JPL_DIR, BSP)]
    d = _variant_dir()
    if variant == "upper":
        # the stock file under a name whose extension is in upper case (a link: nothing is copied)
        path = os.path.join(d, "DE403_2000-2020.BSP")
        if not os.path.exists(path):
            try:
                os.symlink(os.path.join(JPL_DIR, BSP), path)
            except FileExistsError:
                pass
        _variants[variant] = [path]
        return _variants[variant]
    n = 15
    spec = {
        "type3": [("type3.bsp", list(range(n)), True)],
        "reordered": [("reordered.bsp", list(range(n))[::-1], False)],
        "split": [("split_a.bsp", list(range(0, 6)), False), ("split_b.bsp", list(range(6, n)), False)],
        "split_reordered": [("splitr_a.bsp", list(range(10, n))[::-1], False), ("splitr_b.bsp", list(range(0, 10))[::-1], False)],
        "geomoon": [("geomoon.bsp", list(range(n)), "geomoon")],
        "override": [("override_b.bsp", [3], "shift")],
    }[variant]
    out = []
    for fn, picks, t3 in spec:
        path = os.path.join(d, fn)
        if not os.path.exists(path):
            _write_kernel(path, picks, bool(t3) and not isinstance(t3, str), special=t3 if isinstance(t3, str) else None)
        out.append(path)
    if variant == "override":
        out = [os.path.join(JPL_DIR, BSP)] + out  # the stock kernel, then a file holding another solution for one pair: the last listed file wins
    _variants[variant] = out
    return out


def batch_setup():
    base = os.environ.get("VERIF_SCRATCH") or tempfile.gettempdir()
    d = tempfile.mkdtemp(prefix="c18_kernels_", dir=base)
    os.environ["VERIF_C18_VARIANTS"] = d
    for v in KERNEL_VARIANTS:
        kernel_files(v)


def batch_teardown():
    d = os.environ.pop("VERIF_C18_VARIANTS", None)
    if d:
        shutil.rmtree(d, ignore_errors=True)
    _variants.clear()


def model_kernel(variant="stock"):
    """The model's own jplephem handles on the kernel file(s) of the variant the run is configured with."""
    variant = variant or "stock"
    if variant not in _model:
        from jplephem.spk import SPK
        from jplephem.names import target_names

        m = {"spk": [SPK.open(f) for f in kernel_files(variant) if os.path.exists(f)]}
        seg = {}
        for spk in m["spk"]:
            for s in spk.segments:
                seg[s.target] = s
        m["seg"] = seg
        m["names"] = {i: target_names.get(i, "Unknown").title().replace(" ", "") for i in set(seg) | {s.center for s in seg.values()}}
        m["index"] = {v: k for k, v in m["names"].items()}
        m["span"] = (max(s.start_jd for s in seg.values()), min(s.end_jd for s in seg.values()))
        _model[variant] = m
    return _model[variant]


def model_state(idx, jd, variant="stock"):
    """Position (m) and velocity (m/s) of body idx relative to the solar-system barycentre (0), chaining the segments."""
    m = model_kernel(variant)
    out = np.zeros(6)
    while idx != 0:
        s = m["seg"][idx]
        if s.data_type == 3:
            pv = np.asarray(s.compute(jd), dtype=float)  # km and km/s
            out += pv * 1000.0
        else:
            p, v = s.compute_and_differentiate(jd)  # km and km/day
            out[:3] += np.asarray(p) * 1000.0
            out[3:] += np.asarray(v) * 1000.0 / 86400.0
        idx = s.center
    return out


def model_accel(idx, jd, variant="stock"):
    h = 0.01
    lo, hi = model_kernel(variant)["span"]
    a, b = max(jd - h, lo), min(jd + h, hi)
    return (model_state(idx, b, variant)[3:] - model_state(idx, a, variant)[3:]) / ((b - a) * 86400.0)


# ------------------------------------------------------------------ generate


SPAN_MJD = (51536, 59216)  # TDB span of the shipped kernel (1999-12-24 .. 2021-01-02)


def gen_date(rng):
    if rng.random() < 0.08:
        # inside the span but close to its ends: the first seconds (in a scale that lags TDB the clock reading is still "before" the
        # span) and the last minutes
        if rng.random() < 0.6:
            return [SPAN_MJD[0] - 1, 86400.0 - rng.choice([1.0, 5.0, 20.0, 30.0]), rng.choice(["TAI", "UTC", "UTC"])]  # = 1..31 s after the start, in TDB
        return [SPAN_MJD[1] - 1, 86400.0 - rng.choice([120.0, 600.0]), rng.choice(["TAI", "UTC", "TT", "TDB"])]
    if rng.random() < 0.06:
        # exactly 00:00:00 UTC on a day a leap second takes effect: the new TAI-UTC applies from that reading on
        return [rng.choice([53736, 54832, 56109, 57204, 57754]), 0.0, "UTC"]
    if rng.random() < 0.06:
        # any time (but the last minutes) of a day that ends with a leap second
        return [rng.choice([53735, 54831, 56108, 57203, 57753]), float(rng.randrange(3600, 80000)), rng.choice(["UTC", "TAI", "TT"])]
    day = rng.randint(51560, 58800)  # 2000-01-15 .. 2019-11-13, inside the kernel
    r = rng.random()
    if r < 0.35:
        sec = 86400.0 - rng.choice([0.5, 5.0, 20.0, 31.0, 33.0, 40.0, 60.0, 68.0, 70.0])
    elif r < 0.45:
        sec = rng.choice([0.0, 1.0, 43200.0])
    else:
        sec = float(rng.randrange(86400)) + rng.choice([0.0, 0.25])
    return [day, sec, rng.choice(["UTC", "UTC", "TT", "TDB", "TAI"])]


def gen_plan(rng, tier, i):
    names = ["SolarSystemBarycenter", "MercuryBarycenter", "VenusBarycenter", "EarthBarycenter", "MarsBarycenter", "JupiterBarycenter", "SaturnBarycenter",
             "UranusBarycenter", "NeptuneBarycenter", "PlutoBarycenter", "Sun", "Moon", "Earth", "Mercury", "Venus", "Mars"]
    import random

    child = random.Random("c18-child:" + repr(rng.getstate()[1][:8]))  # choices added after the first version draw from a generator of their own: earlier plans keep their operations
    kn = {
        "pck": rng.choice([[], [], ["pck00010.tpc"], ["pck00010.tpc", "gm_de431.tpc"], ["gm_de431.tpc"]]),
        "dynamic_frames": rng.random() < 0.4,
        "real_eop": rng.random() < 0.5,
        "fault": None,
        "explicit_create": rng.random() < 0.8,
    }
    kn["kernel"] = child.choice(["stock"] * 5 + ["type3", "type3", "reordered", "reordered", "split", "split_reordered", "upper", "geomoon", "geomoon", "override", "override", "ghost_first", "ghost_first"])
    kn["pck_upper"] = child.random() < 0.15  # constant files given under an upper-case extension
    if rng.random() < 0.15:
        kn["fault"] = {"kind": rng.choice(["bsp_missing", "bsp_empty", "bsp_truncated", "pck_missing", "pck_damaged"]), "at": rng.random()}
    ops = []
    for _ in range(rng.randint(5, 12) if tier != "thorough" else rng.randint(8, 24)):
        k = rng.choice(["convert"] * 6 + ["get_orbit", "get_orbit", "mutate_again", "create", "create", "dynamic", "register", "flip", "restart", "analytic", "analytic", "reverse", "kepler_probe", "kepler_probe", "orbit_as_frame", "analytic_frame_same_name", "pickle_orbit"])
        op = {"op": k}
        if k == "convert":
            a, b = rng.sample(names + ["EME2000"], 2)
            op.update(a=a, b=b, date=gen_date(rng), probe=[rng.uniform(-1e7, 1e7) for _ in range(3)] + [rng.uniform(-1e3, 1e3) for _ in range(3)] if rng.random() < 0.5 else [0.0] * 6, both=rng.random() < 0.5)
            if child.random() < 0.25:
                op["direct"] = child.choice(["object", "name", "name"])
        elif k in ("get_orbit", "mutate_again"):
            op.update(name=rng.choice(names[1:]), date=gen_date(rng), how=rng.choice(["frame", "form", "values"]))
            if k == "mutate_again" and child.random() < 0.6:
                op["then_propagate"] = child.choice([0.25, 1.0, -1.0, 3.5])
            if k == "get_orbit" and child.random() < 0.3:
                # a regular table of the body (Orbit.ephem) over weeks or a year: every point at its own instant
                op["op"] = "body_ephem"
                op["date"] = [child.randint(51600, 58300), float(child.randrange(86400)), child.choice(["TAI", "TT", "TAI"])]
                op["span_days"] = child.choice([20.0, 120.0, 360.0])
                op["n"] = child.randint(4, 10)
        elif k == "dynamic":
            op.update(name=rng.choice(names + ["Nope", "Vulcan"]))
        elif k == "reverse":
            op.update(name=rng.choice(names[1:]), date=gen_date(rng))
        elif k == "orbit_as_frame":
            op.update(name=rng.choice(["Moon", "Mars", "Sun", "MarsBarycenter", "Venus", "Mercury", "EarthBarycenter"]), date=gen_date(rng), n=rng.randrange(1000), orient=rng.choice([None, None, "QSW"]))
        elif k == "pickle_orbit":
            op.update(name=rng.choice(names[1:]), date=gen_date(rng), to=rng.choice(["SolarSystemBarycenter", "EME2000", "Moon", "Sun"]))
        elif k == "analytic_frame_same_name":
            op.update(name=rng.choice(["Sun", "Moon"]), date=gen_date(rng))
        elif k == "kepler_probe":
            a, b = rng.sample(["Earth", "Moon", "Sun", "MarsBarycenter", "VenusBarycenter", "JupiterBarycenter", "EarthBarycenter"], 2)
            op.update(a=a, b=b, date=gen_date(rng), form=rng.choice(["keplerian", "keplerian_mean", "spherical", "equinoctial"]), r=rng.uniform(2e7, 2e8), ang=[rng.uniform(0, 6.28), rng.uniform(0.1, 3.0)])
        elif k == "register":
            op.update(what=rng.choice(["station", "orbit_frame"]), n=rng.randrange(1000))
        elif k == "flip":
            op.update(files=rng.choice([[], ["/nonexistent/other.bsp"], "pck_only"]))
        elif k == "analytic":
            d_ = gen_date(rng)
            while not (51560 <= d_[0] <= 58800):  # the analytic bodies are compared with the kernel over several days: stay away from its ends
                d_ = gen_date(rng)
            op.update(body=rng.choice(["Sun", "Moon"]), date=d_, n=rng.randint(1, 4), step_days=rng.choice([1, 1, 5, 0.5]), other_first=rng.random() < 0.6, other_offsets=sorted(rng.sample(range(-7, 8), rng.choice([0, 2, 4, 6]))))
        ops.append(op)
    return {"knobs": kn, "ops": ops}


# ------------------------------------------------------------------- world


class World:
    def __init__(self, plan, ctx):
        self.plan, self.ctx = plan, ctx
        kn = plan["knobs"]
        self.kn = kn
        self.disk = SimDisk()
        self.real_eop = bool(kn.get("real_eop"))
        if self.real_eop:
            load_real_eop(self.disk)
            self.tables = ts.Tables(*(self.disk.files[f"/eop/{fn}"] for fn in ("finals.all", "finals2000A.all", "tai-utc.dat")))
        self.scratch = None
        self.fault = kn.get("fault")
        # the same 15 segments stored another way (type 3 records, children before parents, two files): a configuration like any other;
        # file faults are applied to the stock file
        self.variant = "stock" if self.fault else (kn.get("kernel") or "stock")
        pcks = [os.path.join(JPL_DIR, p) for p in kn["pck"]]
        if kn.get("pck_upper") and pcks and not self.fault:
            up = []
            for p_ in pcks:
                link = os.path.join(_variant_dir(), os.path.basename(p_).upper())
                if not os.path.exists(link):
                    try:
                        os.symlink(p_, link)
                    except FileExistsError:
                        pass
                up.append(link)
            pcks = up
            ctx.probe("constant_files_upper_case_extension")
        self.files = kernel_files(self.variant) + pcks
        if self.variant != "stock":
            ctx.probe("kernel_variant_" + self.variant)
        self.faulted = False
        if self.fault:
            self.apply_fault()
        self.nodes = []
        self.node = None
        self.created = 0
        self.history_nontrivial = False
        self.new_node()

    def apply_fault(self):
        f = self.fault
        base = os.environ.get("VERIF_SCRATCH") or tempfile.gettempdir()
        self.scratch = tempfile.mkdtemp(prefix="c18_", dir=base)
        k = f["kind"]
        bsp_src = os.path.join(JPL_DIR, BSP)
        files = list(self.files)
        if k.startswith("bsp"):
            dst = os.path.join(self.scratch, BSP)
            if k == "bsp_missing":
                pass
            elif k == "bsp_empty":
                open(dst, "wb").close()
            else:
                size = os.path.getsize(bsp_src)
                with open(bsp_src, "rb") as fp:
                    data = fp.read(int(size * (0.05 + 0.9 * f["at"])))
                with open(dst, "wb") as fp:
                    fp.write(data)
            files[0] = dst
        else:
            if len(files) < 2:
                files.append(os.path.join(JPL_DIR, PCKS[0]))
            src = files[1]
            dst = os.path.join(self.scratch, os.path.basename(src))
            if k == "pck_missing":
                pass
            else:
                lines = open(src, encoding="ascii").read().splitlines()
                body_lines = [i for i, ln in enumerate(lines) if ln.strip().lower().startswith("body") and "=" in ln]
                i = body_lines[int(f["at"] * (len(body_lines) - 1))]
                lines[i] = lines[i].replace("(", "( 12x.4 ", 1)
                with open(dst, "w", encoding="ascii") as fp:
                    fp.write("\n".join(lines) + "\n")
            files[1] = dst
        self.files = files
        self.faulted = True
        self.ctx.fault("kernel_io:" + k)
        self.ctx.probe("kernel_fault_fired")

    def new_node(self):
        n = Node(f"n{len(self.nodes)}", disk=self.disk, preload=("beyond.env.jpl", "beyond.env.solarsystem"))
        with n:
            cfg = {"eop": {"missing_policy": "pass"}, "env": {"jpl": {"files": list(self.files), "dynamic_frames": bool(self.kn["dynamic_frames"])}}}
            if self.real_eop:
                cfg["eop"]["folder"] = "/eop"
            n.config.update(cfg)
        self.nodes.append(n)
        self.node = n
        self.created = 0
        self.name_clash = False
        if not self.kn["pck"]:
            self.ctx.probe("without_pck")

    def close(self):
        for n in self.nodes:
            try:
                bsp = n.mod("beyond.env.jpl").Bsp._instance
                for s in getattr(bsp, "_spk", []) or []:
                    s.close()
            except Exception:  # noqa
                pass
        if self.scratch:
            shutil.rmtree(self.scratch, ignore_errors=True)

    # -- model -----------------------------------------------------------------
    def jd_tdb(self, date):
        """TDB Julian date of [day, seconds, scale] (+ an optional number of days of uniform time added to the instant afterwards)."""
        day, sec, scale = date[:3]
        plus = date[3] if len(date) > 3 else 0.0
        L = 0.0
        if self.real_eop:
            L = self.tables.tai_utc(day + sec / 86400.0) or 0.0
            if self.tables.row(int(day + sec / 86400.0)) is None:
                L = 0.0
        if scale == "UTC":
            tt = sec + L + 32.184
        elif scale == "TAI":
            tt = sec + 32.184
        elif scale == "TT":
            tt = sec
        else:
            if not plus:
                return day + 2400000.5 + sec / 86400.0
            tt = sec - ts.tdb_minus_tt(day + sec / 86400.0)
        mjd_tt = day + tt / 86400.0 + plus
        return day + plus + 2400000.5 + (tt + ts.tdb_minus_tt(mjd_tt)) / 86400.0

    def model_vector(self, a, b, jd):
        """State of the origin of frame a, seen from frame b (both EME2000-oriented), metres and m/s."""
        m = model_kernel(self.variant)

        def st(name):
            if name == "EME2000":
                name = "Earth"
            return model_state(m["index"][name], jd, self.variant)

        return st(a) - st(b)

    def tol(self, a, b, jd):
        m = model_kernel(self.variant)
        va = self.model_vector(a, b, jd)
        ia = m["index"]["Earth" if a == "EME2000" else a]
        ib = m["index"]["Earth" if b == "EME2000" else b]
        sa, sb = model_state(ia, jd, self.variant), model_state(ib, jd, self.variant)
        speed = np.linalg.norm(sa[3:]) + np.linalg.norm(sb[3:])
        acc = np.linalg.norm(model_accel(ia, jd, self.variant)) + np.linalg.norm(model_accel(ib, jd, self.variant))
        tp = TOLERANCES["pos_m"] + TOLERANCES["pos_rel"] * (np.linalg.norm(sa[:3]) + np.linalg.norm(sb[:3])) + speed * TOLERANCES["jd_slack_s"]
        tv = TOLERANCES["vel_m_s"] + 1e-12 * speed + acc * TOLERANCES["jd_slack_s"]
        return tp, tv

    # -- helpers -----------------------------------------------------------------
    def ensure_frames(self):
        """The documented way: create_frames() before using body frames (unless dynamic_frames does it)."""
        jpl = self.node.mod("beyond.env.jpl")
        if self.created == 0:
            if self.kn["explicit_create"] or not self.kn["dynamic_frames"]:
                jpl.create_frames()
            else:
                # dynamic_frames: the first lookup of a body frame creates them all
                self.node.frames.get_frame("Moon")
                self.ctx.probe("dynamic_lookup_created_frames")
            self.created += 1

    def guarded(self, fn, where, what):
        """Run fn.  Under a kernel fault any exception is a legitimate refusal; otherwise exceptions are violations."""
        ctx = self.ctx
        try:
            return fn(), None
        except Exception as e:  # noqa
            if self.faulted:
                ctx.probe("refused_under_kernel_fault")
                return None, e
            ctx.violate("jpl-frames", {"kind": "unexpected_exception", "op": what, "exc": type(e).__name__}, f"{where}: {what} raised {type(e).__name__}: {e}")
            return None, e

    def check_vector(self, got, a, b, date, where, extra=None):
        ctx = self.ctx
        if getattr(self, "name_clash", False):
            # the run registered an analytic frame under the name of a kernel frame (the library warned: "Overriding"): routing by
            # name may now legitimately go through the analytic link, nothing more is asserted about vectors in this node life
            ctx.probe("vectors_not_judged_after_name_clash")
            return
        jd = self.jd_tdb(date)
        want = self.model_vector(a, b, jd)
        if extra is not None:
            want = want + extra
        tp, tv = self.tol(a, b, jd)
        dp = float(np.linalg.norm(got[:3] - want[:3]))
        dv = float(np.linalg.norm(got[3:] - want[3:]))
        ctx.checks += 1
        ctx.probe("vector_checked")
        ctx.ev("vector", a, b, fhex(got))
        ctx.observe("pos_err_over_tol", dp / tp)
        ctx.observe("vel_err_over_tol", dv / tv)
        if self.history_nontrivial:
            ctx.nontrivial = True
        if date[1] > 86400.0 - 75.0:
            ctx.probe("date_last_minute_of_day")
        ctx.state(tuple(sorted(os.path.basename(f) for f in self.files)), self.kn["dynamic_frames"], (self.fault or {}).get("kind", "-"), a, b)
        if dp > tp or dv > tv:
            rel = dp / max(np.linalg.norm(want[:3]), 1.0)
            ctx.violate(
                "jpl-vectors",
                {"kind": "vector_differs_from_segments", "magnitude": "sign" if np.linalg.norm(got[:3] + want[:3] - (2 * extra[:3] if extra is not None else 0)) < 10 * tp else ("large" if rel > 1e-6 else "small"), "last_minute": date[1] > 86400.0 - 75.0},
                f"{where}: origin of {a} seen from {b} at day {date[0]} + {date[1]} s {date[2]}: off by {dp:.4g} m / {dv:.4g} m/s from the chained segments (|r| = {np.linalg.norm(want[:3]):.4g} m, tolerance {tp:.3g} m / {tv:.3g} m/s)",
            )

    # -- operations -----------------------------------------------------------------
    def op_create(self, op, where):
        jpl = self.node.mod("beyond.env.jpl")
        _, exc = self.guarded(jpl.create_frames, where, "create_frames")
        if exc is None:
            self.created += 1
            if self.created > 1:
                self.ctx.probe("create_frames_reentered")
                self.history_nontrivial = True

    def op_convert(self, op, where):
        ctx = self.ctx
        n = self.node
        a, b = op["a"], op["b"]
        if self.guarded(self.ensure_frames, where, "create_frames")[1] is not None:
            return
        date = world.mk_date(n, op["date"][:2], op["date"][2])

        def conv(x, y, probe):
            sv = n.StateVector(probe, date, "cartesian", x)
            return np.array(sv.copy(frame=y), dtype=float)

        probe = np.array(op["probe"], dtype=float)
        got, exc = self.guarded(lambda: conv(a, b, probe), where, f"conversion {a} -> {b}")
        if exc is not None:
            return
        if "EME2000" in (a, b):
            ctx.probe("builtin_frame_to_body")
        self.check_vector(got, a, b, op["date"], where, extra=probe)
        if op.get("direct") and not getattr(self, "name_clash", False):
            # the documented lower-level call: Center.convert_to(date, <Center or name>, orientation) -> offset of the origin
            def direct():
                fa, fb = n.frames.get_frame(a), n.frames.get_frame(b)
                tgt = fb.center if op["direct"] == "object" else fb.center.name
                return np.array(fa.center.convert_to(date, tgt, fb.orientation), dtype=float)

            off, exc = self.guarded(direct, where, f"Center.convert_to({b!r} given as {op['direct']})")
            if exc is None:
                ctx.probe("centre_offset_asked_directly")
                self.check_vector(off, a, b, op["date"], where + f" (Center.convert_to, target given as {op['direct']})")
        if op.get("both"):
            got2, exc = self.guarded(lambda: conv(b, a, probe), where, f"conversion {b} -> {a}")
            if exc is None:
                ctx.probe("pair_both_directions")
                self.check_vector(got2, b, a, op["date"], where + " (reverse)", extra=probe)
        ctx.sig.append(("convert", a, b))

    def op_get_orbit(self, op, where, mutate=False):
        ctx = self.ctx
        n = self.node
        jpl = n.mod("beyond.env.jpl")
        if self.guarded(self.ensure_frames, where, "create_frames")[1] is not None:
            return
        m = model_kernel(self.variant)
        name = op["name"]
        if name not in m["index"] or m["index"][name] not in m["seg"]:
            return
        centre = m["names"][m["seg"][m["index"][name]].center]
        date = world.mk_date(n, op["date"][:2], op["date"][2])
        o, exc = self.guarded(lambda: jpl.get_orbit(name, date), where, f"get_orbit({name})")
        if exc is not None:
            return
        ctx.checks += 1
        if o.frame.name != centre or o.form.name != "cartesian" or o.date.scale.name != "TDB":
            ctx.violate("jpl-vectors", {"kind": "wrong_labels"}, f"{where}: get_orbit({name}) is given in frame {o.frame.name} (file centre: {centre}), form {o.form.name}, scale {o.date.scale.name}")
        self.check_vector(np.array(o, dtype=float), name, centre, op["date"], where)
        if mutate:
            how = op["how"]
            try:
                if how == "frame":
                    o.frame = "EME2000"
                elif how == "form":
                    o.form = "spherical"
                else:
                    o[:] = 0.0
            except Exception:  # noqa
                pass
            ctx.fault("consumer_mutates_item")
            self.history_nontrivial = True
            if op.get("then_propagate") is not None and how != "values" and SPAN_MJD[0] + 6 <= op["date"][0] <= SPAN_MJD[1] - 6:
                # the caller goes on with the object it changed: propagated to another date it still denotes the body (whatever the frame
                # of the answer), and the frames built on the same propagator keep serving the kernel
                d2 = date.change_scale("TAI") + n.timedelta(days=op["then_propagate"])  # uniform time (UTC arithmetic works on the clock reading: a leap second may intervene)
                d2l = [op["date"][0], op["date"][1], op["date"][2], op["then_propagate"]]
                res, exc = self.guarded(lambda: np.array(o.propagate(d2).copy(frame=centre, form="cartesian"), dtype=float), where, f"propagate() of the changed get_orbit({name})")
                if exc is None:
                    ctx.probe("propagated_after_in_place_change")
                    self.check_vector(res, name, centre, d2l, where + " (changed in place, then propagated)")
                    far = "SolarSystemBarycenter" if centre != "SolarSystemBarycenter" else "Earth"
                    got3, exc = self.guarded(lambda: np.array(n.StateVector([0.0] * 6, date, "cartesian", name).copy(frame=far), dtype=float), where, f"conversion {name} -> {far}")
                    if exc is None:
                        self.check_vector(got3, name, far, op["date"], where + " (conversion after the caller changed and propagated what get_orbit returned)")
            o2, exc = self.guarded(lambda: jpl.get_orbit(name, date), where, f"get_orbit({name}) again")
            if exc is None:
                ctx.probe("mutated_then_queried_again")
                if o2.frame.name != centre or o2.form.name != "cartesian":
                    ctx.violate("jpl-vectors", {"kind": "wrong_labels", "after": "mutation"}, f"{where}: after the caller changed the {how} of what get_orbit({name}) returned, the next get_orbit gives frame {o2.frame.name}, form {o2.form.name}")
                else:
                    self.check_vector(np.array(o2, dtype=float), name, centre, op["date"], where + " (after the caller mutated the previous result)")
        ctx.sig.append(("get_orbit", name, mutate))

    def op_body_ephem(self, op, where):
        """jpl.get_orbit(body, date).ephem(start, stop, step): a regular table; each point is the body at its own instant."""
        ctx = self.ctx
        n = self.node
        jpl = n.mod("beyond.env.jpl")
        if getattr(self, "name_clash", False) or self.guarded(self.ensure_frames, where, "create_frames")[1] is not None:
            return
        m = model_kernel(self.variant)
        name = op["name"]
        if name not in m["index"] or m["index"][name] not in m["seg"]:
            return
        centre = m["names"][m["seg"][m["index"][name]].center]
        date = world.mk_date(n, op["date"][:2], op["date"][2])
        step_days = op["span_days"] / (op["n"] - 1)

        def do():
            o = jpl.get_orbit(name, date)
            return [np.array(p_, dtype=float) for p_ in o.ephem(start=date, stop=n.timedelta(days=op["span_days"]), step=n.timedelta(days=step_days))]

        pts, exc = self.guarded(do, where, f"get_orbit({name}).ephem()")
        if exc is not None:
            return
        ctx.checks += 1
        ctx.probe("body_table_generated")
        self.history_nontrivial = True
        if len(pts) != op["n"] and abs(len(pts) - op["n"]) > 1:
            ctx.violate("jpl-vectors", {"kind": "table_wrong_length"}, f"{where}: a table of {op['n']} points was asked for, {len(pts)} came")
            return
        for k_, p_ in enumerate(pts[: op["n"]]):
            self.check_vector(p_, name, centre, [op["date"][0], op["date"][1], op["date"][2], k_ * step_days], where + f" (point {k_} of a regular table)")

    def op_orbit_as_frame(self, op, where):
        """jpl.get_orbit(body, date).as_frame(name): the body sits at the origin of the frame attached to it, and that origin seen
        from EME2000 is where the kernel puts the body."""
        if getattr(self, "name_clash", False):
            return  # after a name clash (see op_analytic_frame_same_name) frames are looked up by name: nothing is asserted
        ctx = self.ctx
        n = self.node
        jpl = n.mod("beyond.env.jpl")
        if self.guarded(self.ensure_frames, where, "create_frames")[1] is not None:
            return
        m = model_kernel(self.variant)
        name = op["name"]
        if name not in m["index"] or m["index"][name] not in m["seg"]:
            return
        date = world.mk_date(n, op["date"][:2], op["date"][2])
        fname = f"Att{op['n']}"

        def do():
            o = jpl.get_orbit(name, date)
            kw = {"orientation": op["orient"]} if op.get("orient") else {}
            o.as_frame(fname, **kw)
            if op["n"] % 3 == 0 and not op.get("orient"):
                o.frame = "EME2000" if name != "Earth" else "Sun"  # the caller goes on with its orbit: converted in place after it gave its name to the frame
                ctx.probe("orbit_changed_in_place_after_as_frame")
            probe = n.StateVector([0.0] * 6, date, "cartesian", fname)
            return np.array(probe.copy(frame="EME2000"), dtype=float)

        got, exc = self.guarded(do, where, f"get_orbit({name}).as_frame()")
        if exc is not None:
            return
        ctx.probe("frame_attached_to_a_jpl_orbit")
        self.history_nontrivial = True
        if op.get("orient"):
            got = np.concatenate([got[:3], self.model_vector(name, "EME2000", self.jd_tdb(op["date"]))[3:]])  # a rotating local frame: only the origin's position is compared
        self.check_vector(got, name, "EME2000", op["date"], where + " (origin of the frame attached to the orbit)")

    def op_analytic_frame_same_name(self, op, where):
        """solarsystem.get_frame('Sun' / 'Moon') registers an analytic frame under a name the kernel frames already use (the
        library warns): jpl.get_frame(name) keeps serving the frame created from the kernel."""
        ctx = self.ctx
        n = self.node
        jpl = n.mod("beyond.env.jpl")
        if self.guarded(self.ensure_frames, where, "create_frames")[1] is not None or self.faulted:
            return
        try:
            n.mod("beyond.env.solarsystem").get_frame(op["name"])
        except Exception:  # noqa
            return
        ctx.fault("msg_interleaved_registration")
        self.name_clash = True
        self.history_nontrivial = True
        fr, exc = self.guarded(lambda: jpl.get_frame(op["name"]), where, f"jpl.get_frame({op['name']})")
        if exc is not None:
            return
        ctx.checks += 1
        ctx.probe("kernel_frame_served_after_analytic_namesake")
        if type(fr).__name__ != "JplFrame" or fr.orientation.name != "EME2000":
            ctx.violate("jpl-frames", {"kind": "kernel_frame_replaced_by_namesake", "name": op["name"]}, f"{where}: after solarsystem.get_frame({op['name']!r}), jpl.get_frame({op['name']!r}) returns a {type(fr).__name__} oriented {fr.orientation.name} instead of the frame created from the kernel")

    def op_pickle_orbit(self, op, where):
        """A body state sent to another worker (pickle) and converted there denotes the same point."""
        import pickle

        ctx = self.ctx
        n = self.node
        jpl = n.mod("beyond.env.jpl")
        if getattr(self, "name_clash", False) or self.guarded(self.ensure_frames, where, "create_frames")[1] is not None:
            return
        m = model_kernel(self.variant)
        name, to = op["name"], op["to"]
        if name not in m["index"] or m["index"][name] not in m["seg"] or to == name:
            return
        date = world.mk_date(n, op["date"][:2], op["date"][2])

        def do():
            o = jpl.get_orbit(name, date)
            o2 = pickle.loads(pickle.dumps(o))
            return np.array(o2.copy(frame=to), dtype=float)

        got, exc = self.guarded(do, where, f"pickle of get_orbit({name}) then conversion to {to}")
        if exc is not None:
            return
        ctx.probe("pickled_body_state_converted")
        ctx.fault("msg_to_other_node")
        self.check_vector(got, name, to, op["date"], where + " (after a pickle round trip)")

    def op_reverse(self, op, where):
        """A propagator built in the direction opposite to the file's segment (centre seen from its target): the negated segment,
        position and velocity."""
        if getattr(self, "name_clash", False):
            return  # after a name clash (see op_analytic_frame_same_name) frames are looked up by name: nothing is asserted
        ctx = self.ctx
        n = self.node
        jpl = n.mod("beyond.env.jpl")
        if self.guarded(self.ensure_frames, where, "create_frames")[1] is not None:
            return
        m = model_kernel(self.variant)
        name = op["name"]
        if name not in m["index"] or m["index"][name] not in m["seg"]:
            return
        centre = m["names"][m["seg"][m["index"][name]].center]
        date = world.mk_date(n, op["date"][:2], op["date"][2])

        def rev():
            prop = jpl.JplPropagator(n.frames.get_frame(centre).center, n.frames.get_frame(name))
            return prop.propagate(date)

        o, exc = self.guarded(rev, where, f"reversed propagator {centre} seen from {name}")
        if exc is not None:
            return
        ctx.probe("reversed_propagator_checked")
        self.check_vector(np.array(o, dtype=float), centre, name, op["date"], where + " (reversed propagator)")

    def op_kepler_probe(self, op, where):
        """A state held in a non-cartesian form changes frame in place, from one body to another: the conversion back to the form
        must use the new central body (needs the GM constants: only when the constant files are configured)."""
        if getattr(self, "name_clash", False):
            return  # after a name clash (see op_analytic_frame_same_name) frames are looked up by name: nothing is asserted
        ctx = self.ctx
        n = self.node
        if not any(f.lower().endswith("gm_de431.tpc") for f in self.files) or self.faulted:
            return
        if self.guarded(self.ensure_frames, where, "create_frames")[1] is not None:
            return
        a, b = op["a"], op["b"]
        date = world.mk_date(n, op["date"][:2], op["date"][2])
        try:
            fa = n.frames.get_frame(a)
            mu = fa.center.body.mu
        except Exception:  # noqa
            return
        if a in ("Earth", "Moon", "Sun") and not (mu and np.isfinite(mu) and mu > 0):
            ctx.violate("jpl-frames", {"kind": "constants_not_loaded", "body": a}, f"{where}: the constant file gm_de431.tpc is configured ({[os.path.basename(f) for f in self.files]}) but the centre {a} has mu = {mu!r}")
            return
        if not mu or not np.isfinite(mu) or mu <= 0:
            return
        r = op["r"]
        v = np.sqrt(mu / r)
        c1, c2 = op["ang"]
        pos = r * np.array([np.cos(c1) * np.sin(c2), np.sin(c1) * np.sin(c2), np.cos(c2)])
        e1 = np.cross(pos, [0.3, -0.5, 0.8])
        e1 = e1 / np.linalg.norm(e1)
        probe = np.concatenate([pos, 0.9 * v * e1])
        sv = n.StateVector(probe, date, "cartesian", a)
        sv.form = op["form"]
        if not np.all(np.isfinite(np.asarray(sv, dtype=float))):
            return
        _, exc = self.guarded(lambda: setattr(sv, "frame", b), where, f"in-place frame change {a} -> {b} in {op['form']} form")
        if exc is not None:
            return
        try:
            got = np.array(sv.copy(form="cartesian"), dtype=float)
        except Exception:  # noqa
            return
        if not np.all(np.isfinite(got)) or sv.form.name.lower() != n.mod("beyond.orbits.forms").get_form(op["form"]).name.lower():
            return
        jd = self.jd_tdb(op["date"])
        want = self.model_vector(a, b, jd) + probe
        tp, tv = self.tol(a, b, jd)
        rel = 1e-7  # the round trip through the non-cartesian form (possibly hyperbolic about the new body) is not bit exact
        dp = float(np.linalg.norm(got[:3] - want[:3]))
        dv = float(np.linalg.norm(got[3:] - want[3:]))
        ctx.checks += 1
        ctx.probe("non_cartesian_state_changed_body")
        ctx.observe("kepler_probe_rel", max(dp / np.linalg.norm(want[:3]), dv / np.linalg.norm(want[3:])))
        if dp > tp + rel * np.linalg.norm(want[:3]) or dv > tv + rel * np.linalg.norm(want[3:]):
            ctx.violate("jpl-vectors", {"kind": "non_cartesian_state_wrong_after_body_change", "form": op["form"]}, f"{where}: a state in {op['form']} form moved in place from frame {a} to frame {b}: off by {dp:.4g} m / {dv:.4g} m/s from the chained segments (|r| {np.linalg.norm(want[:3]):.3g} m, |v| {np.linalg.norm(want[3:]):.3g} m/s)")

    def op_mutate_again(self, op, where):
        self.op_get_orbit(op, where, mutate=True)

    def op_dynamic(self, op, where):
        ctx = self.ctx
        n = self.node
        frames = n.frames
        errors = n.mod("beyond.errors")
        name = op["name"]
        known = name in model_kernel(self.variant)["index"]
        try:
            fr = frames.get_frame(name)
            exc = None
        except Exception as e:  # noqa
            exc = e
        ctx.checks += 1
        if self.kn["dynamic_frames"]:
            self.history_nontrivial = True
        if exc is None:
            if not known:
                ctx.violate("jpl-frames", {"kind": "unknown_frame_served"}, f"{where}: get_frame({name!r}) returned {fr}")
            elif self.kn["dynamic_frames"] and self.created == 0:
                ctx.probe("dynamic_lookup_created_frames")
                self.created += 1
            return
        if isinstance(exc, errors.UnknownFrameError):
            if known and (self.created > 0 or self.kn["dynamic_frames"]) and not self.faulted:
                ctx.violate("jpl-frames", {"kind": "known_frame_refused"}, f"{where}: get_frame({name!r}) raised UnknownFrameError although the kernel holds it and frames were created / dynamic_frames is on")
            else:
                ctx.probe("unknown_frame_refused")
            if self.kn["dynamic_frames"] and not known and not self.faulted:
                self.created += 1  # create_frames ran again underneath
                if self.created > 1:
                    ctx.probe("create_frames_reentered")
            return
        if not self.faulted:
            ctx.violate("jpl-frames", {"kind": "unexpected_exception", "op": "get_frame", "exc": type(exc).__name__}, f"{where}: get_frame({name!r}) raised {type(exc).__name__}: {exc}")

    def op_register(self, op, where):
        n = self.node
        self.ctx.fault("msg_interleaved_registration")
        self.ctx.probe("registration_interleaved")
        self.history_nontrivial = True
        if op["what"] == "station":
            n.mod("beyond.frames.stations").create_station(f"Sta{op['n']}", (43.0 + op["n"] % 10, 1.0 + op["n"] % 7, 100.0))
        else:
            orb = n.Orbit([7.2e6, 0.01, 0.9, 1.0, 2.0, 3.0], n.Date(55000, 0.0), "keplerian", "EME2000", n.mod("beyond.propagators.kepler").Kepler())
            n.frames.orbit2frame(f"Orb{op['n']}", orb)

    def op_flip(self, op, where):
        """The configuration changes after the kernels have been opened: the singletons keep serving the first file set."""
        n = self.node
        if self.created == 0:
            return
        files = op["files"]
        if files == "pck_only":
            files = [f for f in self.files if f.endswith(".tpc")]
        n.config["env"]["jpl"]["files"] = files
        self.ctx.fault("config_flip")
        self.ctx.probe("config_flip_after_first_use")
        self.history_nontrivial = True

    def op_restart(self, op, where):
        self.ctx.fault("restart")
        self.ctx.probe("restart")
        self.new_node()
        self.history_nontrivial = True

    def op_analytic(self, op, where):
        """Analytic Sun / Moon: independent of what was evaluated before (bit for bit against a pristine node), within the series
        accuracy of the kernel, velocity = derivative of position."""
        ctx = self.ctx
        n = self.node
        body = op["body"]
        other = "Moon" if body == "Sun" else "Sun"
        ss = n.mod("beyond.env.solarsystem")
        td = n.timedelta
        d0 = world.mk_date(n, op["date"][:2], op["date"][2])
        seq = []
        for off in op.get("other_offsets", []):
            # the other body is evaluated on neighbouring days first (two daily sweeps side by side)
            ss.get_body(other).propagate(d0 + td(days=off))
            ctx.probe("analytic_other_body_on_neighbouring_days")
        for i in range(op["n"]):
            d = d0 + td(days=i * op["step_days"])
            if op["other_first"]:
                ss.get_body(other).propagate(d)
            seq.append((d, np.array(ss.get_body(body).propagate(d).copy(frame="EME2000"), dtype=float)))
        p = Node("pristine", disk=self.disk, preload=("beyond.env.solarsystem",))
        with p:
            cfg = {"eop": {"missing_policy": "pass"}}
            if self.real_eop:
                cfg["eop"]["folder"] = "/eop"
            p.config.update(cfg)
        d_last, v_last = seq[-1]
        with p:
            dd = world.mk_date(p, op["date"][:2], op["date"][2]) + p.timedelta(days=(op["n"] - 1) * op["step_days"])
            want = np.array(p.mod("beyond.env.solarsystem").get_body(body).propagate(dd).copy(frame="EME2000"), dtype=float)
        ctx.checks += 1
        if v_last.tobytes() != want.tobytes():
            ctx.violate("analytic-bodies", {"kind": "depends_on_history", "body": body}, f"{where}: {body} at {d_last} after {op['n'] - 1} earlier evaluations{' interleaved with the ' + other if op['other_first'] else ''}: {v_last}, a pristine process gives {want}")
        else:
            ctx.probe("analytic_history_independent")
        # sampled: series accuracy against the kernel
        date = [op["date"][0], op["date"][1], op["date"][2]]
        jd = self.jd_tdb(date) + (op["n"] - 1) * op["step_days"]
        ref = self.model_vector(body, "Earth", jd)
        ang = np.degrees(np.arccos(np.clip(np.dot(ref[:3], v_last[:3]) / np.linalg.norm(ref[:3]) / np.linalg.norm(v_last[:3]), -1, 1)))
        dr = abs(np.linalg.norm(v_last[:3]) / np.linalg.norm(ref[:3]) - 1)
        lim = (0.02, 1e-4) if body == "Sun" else (0.7, 5e-3)
        ctx.observe(f"{body}_angle_deg", ang)
        ctx.observe(f"{body}_dist_rel", dr)
        ctx.checks += 1
        if ang > lim[0] or dr > lim[1]:
            ctx.violate("analytic-bodies", {"kind": "outside_series_accuracy", "body": body}, f"{where}: analytic {body} at jd {jd:.3f} is {ang:.4f} deg / {dr:.2e} (relative distance) away from DE403 (stated: {lim[0]} deg, {lim[1]})")
        else:
            ctx.probe("analytic_within_series_accuracy")
        # velocity = time derivative of the position (own central difference, step 1 h; the series are smooth)
        h = 1800.0
        a = np.array(ss.get_body(body).propagate(d_last + td(seconds=h)).copy(frame="EME2000"), dtype=float)[:3]
        b = np.array(ss.get_body(body).propagate(d_last - td(seconds=h)).copy(frame="EME2000"), dtype=float)[:3]
        vel = (a - b) / (2 * h)
        rel = float(np.linalg.norm(vel - v_last[3:]) / np.linalg.norm(vel))
        ctx.observe(f"{body}_velocity_rel", rel)
        if rel > (0.05 if body == "Moon" else 0.01):  # the library differentiates with a 1-day (Moon) / 5-day?? step: ~1 % for the Moon
            ctx.violate("analytic-bodies", {"kind": "velocity_not_derivative", "body": body}, f"{where}: velocity of the analytic {body} differs by {rel:.3e} (relative) from the derivative of its position")
        ctx.sig.append(("analytic", body, op["other_first"]))

    def run(self):
        ctx = self.ctx
        for step, op in enumerate(self.plan["ops"]):
            where = f"op#{step} {op['op']}"
            with self.node:
                getattr(self, "op_" + op["op"])(op, where)
            ctx.ops_done += 1
            ctx.ev(op["op"], self.created, len(self.nodes))
            ctx.sig.append(op["op"])


def run_plan(plan, ctx):
    w = World(plan, ctx)
    try:
        w.run()
    finally:
        w.close()
    ctx.nontrivial = bool(getattr(ctx, "nontrivial", False))


def simplify(plan):
    kn = plan["knobs"]
    for key, val in (("fault", None), ("real_eop", False), ("dynamic_frames", False), ("pck", [])):
        if kn.get(key) and kn.get(key) != val:
            yield dict(plan, knobs=dict(kn, **{key: val}))
    for idx, o in enumerate(plan["ops"]):
        if o["op"] == "convert" and (o.get("both") or any(o["probe"])):
            yield dict(plan, ops=plan["ops"][:idx] + [dict(o, both=False, probe=[0.0] * 6)] + plan["ops"][idx + 1 :])
        if o["op"] == "analytic" and (o["n"] > 1 or o["other_first"]):
            yield dict(plan, ops=plan["ops"][:idx] + [dict(o, n=1, other_first=False)] + plan["ops"][idx + 1 :])
        if o["op"] == "analytic" and o.get("other_offsets"):
            for j in range(len(o["other_offsets"])):
                yield dict(plan, ops=plan["ops"][:idx] + [dict(o, other_offsets=o["other_offsets"][:j] + o["other_offsets"][j + 1 :])] + plan["ops"][idx + 1 :])
