"""C12 - TLE text round-trips and is validated.

A writer process turns model field records into orbits and writes them as TLE text to the
simulated disk; a reader process (fresh node) parses the stored text.  Between the two the
storage fault model of the property's own quantifier is *enumerated* per entry: every single
digit substituted by every other digit at every column of both lines, every substitution of the
line number, every truncation length and one over-length; and for catalogues every single line
loss, duplication, adjacent swap and in-place corruption, read with every error policy
(DESIGN.md 5.7).  The entries themselves are seeded samples."""

import hashlib
import logging

import numpy as np

from sim.node import Node, SimDisk, load_real_eop
from sim.core import fhex

LEVEL = "fault_enumeration"
TIERS = {
    "quick": {"runs": 1200, "max_wall": 170, "chunk": 10},
    "thorough": {"runs": 60000, "max_wall": 1700, "chunk": 20},
}
RULE = (
    "one run = one seeded catalogue (1..6 entries, 2-line or 3-line form, comment lines) written by a writer process from model field records (grid "
    "records: every field on its printed grid, compared byte for byte with an independent formatter; free records: arbitrary floats and epochs, incl. "
    "the last millisecond before midnight) and read by a fresh reader process. Per run, for up to two entries, the storage faults are enumerated "
    "exhaustively: every single digit -> every other digit at every column of both lines, every line-number substitution, every truncation length 0..68 "
    "and one over-length; per catalogue every single line loss, duplication, adjacent swap and in-place digit corruption, each read with error = "
    "ignore, warn and raise. evaluations = runs; distinct_nontrivial = distinct (entry signature) records whose fault enumeration completed"
)
STATE_MEASURE = "(record kind, field-shape classes: sign/zero of drag terms, exponent, designator presence, digits of element / revolution numbers, catalogue fault kind)"
PROBES = [
    "grid_entry_bytes_equal", "free_entry_parsed_back", "digit_flips_rejected", "truncations_rejected", "line_number_subs_rejected", "catalogue_fault_checked",
    "catalogue_warn_logged", "orbit_called_twice_with_mutation", "small_adjustment_written_back", "orbit_in_another_frame_written_back", "catalogue_layout_crlf", "catalogue_layout_blank", "catalogue_layout_noeol", "failed_frame_change_before_writing_back", "epoch_last_ms_before_midnight", "four_digit_element_number", "five_digit_revolutions",
    "negative_ndot", "negative_bstar", "zero_drag_terms", "empty_designator", "three_line_form", "damaged_entry_followed_by_valid",
]
REAL_VS_STUB = "real: beyond.io.tle (Tle, from_orbit, from_string, orbit), Orbit/forms/Date; stub: none (the stored text is held by the simulated disk and corrupted there); model: independent fixed-column formatter / checksum / field reader"
ASSUMPTIONS = ["classification is always 'U' (from_orbit writes nothing else)", "the entries of one catalogue have distinct catalogue numbers (mixed lines of two element sets of the same object cannot be told apart by any reader)", "exponents of the drag terms are single digits (-9..+2), as the format's 8 columns allow"]
SAMPLED_ONLY = ["the catalogue entries themselves are seeded samples; the fault space per entry is enumerated completely"]
TOLERANCES = {"epoch_day": 1e-8}


# ------------------------------------------------------------------ model


def checksum(line):
    return sum(int(c) if c.isdigit() else (1 if c == "-" else 0) for c in line[:68]) % 10


def expfield(mant, exp, neg):
    """'decimal point assumed' field: 5 digits mantissa, exponent sign and digit. value = 0.mant * 10**exp"""
    if mant == 0:
        return "00000-0", 0.0
    txt = f"{'-' if neg else ''}{mant:05d}{'+' if exp >= 0 else '-'}{abs(exp)}"
    val = float(f"{'-' if neg else ''}0.{mant:05d}e{exp}")
    return txt, val


def fmt_lines(rec):
    """The two lines of a record whose fields are all on their printed grid (own formatter)."""
    cos = ""
    if rec["designator"]:
        y, nb, piece = rec["designator"]
        cos = f"{y % 100:02d}{nb:03d}{piece}"
    nd = rec["ndot_half_e8"]  # integer, units of 1e-8 rev/day^2
    ndot_txt = f"{'-' if nd < 0 else ' '}.{abs(nd):08d}"
    ndd_txt, _ = expfield(*rec["nddot"])
    bs_txt, _ = expfield(*rec["bstar"])
    day = f"{rec['doy'] + rec['frac_e8'] / 1e8:012.8f}"
    l1 = f"1 {rec['norad']:05d}U {cos:<8} {rec['year'] % 100:02d}{day} {ndot_txt:>10} {ndd_txt:>8} {bs_txt:>8} 0 {rec['elnb']:>4}"
    l2 = (
        f"2 {rec['norad']:05d} {rec['i_e4'] / 1e4:8.4f} {rec['raan_e4'] / 1e4:8.4f} {rec['e_e7']:07d} {rec['argp_e4'] / 1e4:8.4f} "
        f"{rec['M_e4'] / 1e4:8.4f} {rec['n_e8'] / 1e8:11.8f}{rec['rev']:>5}"
    )
    l1 += str(checksum(l1))
    l2 += str(checksum(l2))
    return l1, l2


def rec_values(rec):
    """Physical values of a grid record."""
    _, ndd = expfield(*rec["nddot"])
    _, bs = expfield(*rec["bstar"])
    return {
        "norad": rec["norad"],
        "cospar": f"{rec['designator'][0]}-{rec['designator'][1]:03d}{rec['designator'][2]}" if rec["designator"] else "",
        "ndot": rec["ndot_half_e8"] * 1e-8 * 2,
        "ndotdot": ndd * 6,
        "bstar": bs,
        "elnb": rec["elnb"],
        "rev": rec["rev"],
        "i": rec["i_e4"] / 1e4,
        "raan": rec["raan_e4"] / 1e4,
        "e": rec["e_e7"] / 1e7,
        "argp": rec["argp_e4"] / 1e4,
        "M": rec["M_e4"] / 1e4,
        "n": rec["n_e8"] / 1e8,
        "year": rec["year"],
        "day": rec["doy"] + rec["frac_e8"] / 1e8,
    }


def parse_fields(l1, l2):
    """Independent fixed-column reader (columns from the format description)."""

    def ef(t):
        t = t.strip()
        sign = -1.0 if t[0] == "-" else 1.0
        t = t.lstrip("+-")
        cut = max(t.rfind("+"), t.rfind("-"))  # the writer may use a two-digit exponent when the sign column is free
        mant, es, ex = t[:cut], t[cut], t[cut + 1 :]
        return sign * float(f"0.{mant}e{es}{ex}")

    yy = int(l1[18:20])
    return {
        "norad": int(l1[2:7]),
        "cospar": (f"{(1900 if int(l1[9:11]) >= 57 else 2000) + int(l1[9:11])}-{l1[11:17].strip()}" if l1[9:17].strip() else ""),
        "year": (1900 if yy >= 57 else 2000) + yy,
        "day": float(l1[20:32]),
        "ndot": float(l1[33:43]) * 2,
        "ndotdot": ef(l1[44:52]) * 6,
        "bstar": ef(l1[53:61]),
        "elnb": int(l1[64:68]),
        "rev": int(l2[63:68]),
        "i": float(l2[8:16]),
        "raan": float(l2[17:25]),
        "e": float("0." + l2[26:33]),
        "argp": float(l2[34:42]),
        "M": float(l2[43:51]),
        "n": float(l2[52:63]),
    }


# ------------------------------------------------------------------ generate


def _days_in_year(y):
    return 366 if (y % 4 == 0 and (y % 100 != 0 or y % 400 == 0)) else 365


def gen_record(rng, kind):
    year = rng.choice([1957, 1958, 1999, 2000, 2056, 2024]) if rng.random() < 0.3 else rng.randint(1957, 2056)
    rec = {
        "kind": kind,
        "norad": rng.choice([rng.randint(0, 99999), rng.randint(0, 9), 99999, rng.randint(10000, 99999)]),
        "designator": None if rng.random() < 0.2 else [rng.randint(1957, 2056), rng.randint(1, 999), rng.choice(["A", "B", "AB", "ZZZ", "C"])],
        "year": year,
        "doy": rng.randint(1, _days_in_year(year)),
        "frac_e8": rng.choice([0, 99999999, rng.randrange(100000000), rng.randrange(100000000)]),
        "ndot_half_e8": rng.choice([0, rng.randint(-99999999, 99999999), rng.randint(-5000, 5000), -1, 1]),
        "nddot": [rng.choice([0, rng.randint(10000, 99999)]), rng.randint(-9, 2), rng.random() < 0.4],
        "bstar": [rng.choice([0, rng.randint(10000, 99999), rng.randint(10000, 99999)]), rng.randint(-9, 2), rng.random() < 0.4],
        "elnb": rng.choice([rng.randint(0, 9999), rng.randint(1000, 9999), rng.randint(0, 999), 0, 9999]),
        "rev": rng.choice([rng.randint(0, 99999), rng.randint(10000, 99999), 0, 99999]),
        "i_e4": rng.choice([rng.randint(0, 1800000), 0, 1800000]),
        "raan_e4": rng.choice([rng.randint(0, 3599999), 0, 3599999]),
        "e_e7": rng.choice([rng.randint(0, 9999999), 0, 9999999, rng.randint(0, 100000)]),
        "argp_e4": rng.randint(0, 3599999),
        "M_e4": rng.randint(0, 3599999),
        "n_e8": rng.choice([rng.randint(1, 1699999999), rng.randint(100000000, 1699999999), rng.randint(1, 99999999)]),
        "name": rng.choice([None, "ISS (ZARYA)", "SAT 12", "0 OBJECT A"]),
    }
    if kind == "free":
        # arbitrary values, not on the printed grid; epoch with arbitrary microseconds, sometimes in the last millisecond of the day
        rec["free"] = {
            "i": rng.uniform(0, 180), "raan": rng.uniform(0, 360), "e": rng.uniform(0, 0.9999999), "argp": rng.uniform(0, 360), "M": rng.uniform(0, 360),
            "n": rng.uniform(0.01, 16.99), "ndot": rng.uniform(-1e-3, 1e-3) * 2,
            # drag terms: arbitrary, or with a mantissa that rounds up to 1.00000 at five digits (carry into the exponent)
            "bstar": rng.choice([rng.uniform(-1e-3, 1e-3) * rng.choice([1, 1e-3, 1e-6]), rng.choice([1, -1]) * rng.uniform(9.99995, 9.9999999) * 10 ** rng.randint(-9, -2)]),
            "ndotdot": rng.choice([0.0, rng.uniform(-1e-5, 1e-5), 6 * rng.uniform(9.99995, 9.9999999) * 10 ** rng.randint(-9, -3)]),
            # the angles of an orbit held in TLE form may have been set outside [0, 360) (nodal regression, phasing): whole turns added
            "wrap": rng.choice([[0, 0, 0], [0, 0, 0], [-1, 0, 0], [0, 1, -1], [1, -1, 2]]),
            "sod_us": rng.choice([rng.randrange(86400000000), 86400000000 - rng.randint(1, 432), 86400000000 - rng.randint(1, 1000), rng.randrange(86400000000)]),
        }
    return rec


def gen_plan(rng, tier, i):
    n = rng.choice([1, 1, 2, 3, 4, 6])
    recs = [gen_record(rng, rng.choice(["grid", "grid", "free"])) for _ in range(n)]
    seen = set()
    for r in recs:  # distinct catalogue numbers: two element sets of one object whose lines get mixed cannot be told apart by any reader
        while r["norad"] in seen:
            r["norad"] = rng.randint(0, 99999)
        seen.add(r["norad"])
    three = rng.random() < 0.5
    if not three:
        for r in recs:
            r["name"] = None
    else:
        import random

        child = random.Random("c12-child:" + repr([r["norad"] for r in recs]))  # added after the first version: own generator
        for r in recs:
            r["name"] = r["name"] or "SAT " + str(r["norad"])
            if child.random() < 0.2:
                # an object known by its designation, or whose name starts with the digit of a line number (without being a TLE line)
                r["name"] = child.choice(["2019-012B", "1998-067C", "1KUNS-PF", "2001 DEB", "1999-025DZZ", "21 LUTETIA", "FENGYUN 1C DEB #1204", "SAT #2 (50% FUEL)", "OBJECT A # B", "COSMOS 2251  DEB", "DELTA 1 R/B   (2)", "ATLAS\tCENTAUR"])  # (a comment mark elsewhere than in first position belongs to the name)
    ops = []
    # which entries get the exhaustive per-entry enumeration
    for k in rng.sample(range(n), n if tier == "thorough" else min(2, n)):  # thorough: the fault space of every entry
        ops.append({"op": "enumerate_entry", "entry": k})
    # catalogue faults (each applied alone to the pristine stored text)
    for _ in range(rng.randint(2, 6)):
        ops.append({"op": "catalogue_fault", "kind": rng.choice(["lose", "dup", "swap", "corrupt", "truncate", "lose", "corrupt", "zero_to_letter", "zero_to_letter"]), "line": rng.randrange(64), "col": rng.randrange(69), "digit": rng.randrange(1, 10), "policy": rng.choice(["ignore", "warn", "raise"])})
    return {"knobs": {"records": recs, "real_eop": rng.random() < 0.3, "comments": rng.random() < 0.3, "three_line": three, "all_line_faults": rng.random() < (1.0 if tier == "thorough" else 0.3)}, "ops": ops}


# ----------------------------------------------------------------------- run


def build_orbit(node, rec):
    """Orbit carrying the fields of the record (writer side)."""
    from datetime import datetime, timedelta

    if rec["kind"] == "grid":
        v = rec_values(rec)
        # microseconds of the day, rounded from the 1e-8 day grid
        us = int(round(rec["frac_e8"] * 864.0))
        dt = datetime(rec["year"], 1, 1) + timedelta(days=rec["doy"] - 1, microseconds=us)
    else:
        f = rec["free"]
        v = dict(rec_values(rec), i=f["i"], raan=f["raan"] + f.get("wrap", [0, 0, 0])[0] * 360.0, e=f["e"], argp=f["argp"] + f.get("wrap", [0, 0, 0])[1] * 360.0, M=f["M"] + f.get("wrap", [0, 0, 0])[2] * 360.0, n=f["n"], ndot=f["ndot"], bstar=f["bstar"], ndotdot=f["ndotdot"])
        dt = datetime(rec["year"], 1, 1) + timedelta(days=rec["doy"] - 1, microseconds=f["sod_us"])
    date = node.Date(dt)
    elems = [np.radians(v["i"]), np.radians(v["raan"]), v["e"], np.radians(v["argp"]), np.radians(v["M"]), v["n"] * 2 * np.pi / 86400.0]
    kw = dict(bstar=v["bstar"], ndot=v["ndot"], ndotdot=v["ndotdot"], norad_id=rec["norad"], element_nb=rec["elnb"], revolutions=rec["rev"], cospar_id=v["cospar"])
    if rec.get("name"):
        kw["name"] = rec["name"][2:] if rec["name"].startswith("0 ") else rec["name"]
    orb = node.Orbit(elems, date, "TLE", "TEME", "Sgp4", **kw)
    return orb, v, dt


def fields_of_tle(t):
    return {
        "norad": t.norad_id, "cospar": t.cospar_id, "ndot": t.ndot, "ndotdot": t.ndotdot, "bstar": t.bstar, "elnb": t.element_nb, "rev": t.revolutions,
        "i": np.degrees(t.i), "raan": np.degrees(t.Ω), "e": t.e, "argp": np.degrees(t.ω), "M": np.degrees(t.M), "n": t.n * 86400 / (2 * np.pi),
    }


FIELD_TOL = {"ndot": 2.1e-8, "ndotdot": None, "bstar": None, "i": 0.51e-4, "raan": 0.51e-4, "e": 0.51e-7, "argp": 0.51e-4, "M": 0.51e-4, "n": 0.51e-8}


def cmp_fields(want, got, exact):
    """Names of the fields that differ (at printed precision when the record is not on the grid)."""
    bad = []
    for k in ("norad", "cospar", "elnb", "rev"):
        if want[k] != got[k]:
            bad.append(k)
    for k in ("ndot", "ndotdot", "bstar", "i", "raan", "e", "argp", "M", "n"):
        a, b = float(want[k]), float(got[k])
        if k in ("ndotdot", "bstar"):
            tol = 1e-12 * abs(a) if exact else 0.51e-4 * max(abs(a), 1e-30) * 10  # 5 significant digits
            tol = max(tol, 1e-300)
        else:
            tol = 1e-9 * max(abs(a), 1.0) if exact else FIELD_TOL[k]
        d = abs(a - b)
        if k in ("raan", "argp", "M") and not exact:
            d = abs((a - b + 180.0) % 360.0 - 180.0)  # equal modulo a whole turn
        if d > tol:
            bad.append(k)
    return bad


class LogCatcher(logging.Handler):
    def __init__(self):
        super().__init__(level=logging.WARNING)
        self.records = []

    def emit(self, record):
        self.records.append(record)


def run_plan(plan, ctx):
    kn = plan["knobs"]
    recs = kn["records"]
    disk = SimDisk()
    if kn.get("real_eop"):
        load_real_eop(disk)  # both processes see the IERS tables (TAI-UTC is then not zero for 1973-2017 epochs)
    W = Node("writer", disk=disk)
    R = Node("reader", disk=disk)
    for n in (W, R):
        with n:
            cfg = {"eop": {"missing_policy": "pass"}}
            if kn.get("real_eop"):
                cfg["eop"]["folder"] = "/eop"
            n.config.update(cfg)
    # ------------------------------------------------------------ writer
    entries = []  # per entry: dict(lines=[name?, l1, l2], want=fields, exact=bool, dt=datetime)
    with W:
        TleW = W.Tle
        for k, rec in enumerate(recs):
            orb, v, dt = build_orbit(W, rec)
            fp = {"record": rec["kind"], "elnb_digits": len(str(rec["elnb"])), "rev_digits": len(str(rec["rev"]))}
            try:
                t = TleW.from_orbit(orb)
            except W.mod("beyond.io.tle").TleParseError as e:
                if rec["kind"] == "free":
                    # an orbit the format cannot hold (e.g. a drag term needing a two-digit exponent) is refused: legitimate
                    ctx.probe("free_record_refused_by_writer")
                    continue
                ctx.violate("write", dict(fp, kind="from_orbit_fails", exc=type(e).__name__), f"entry {k}: Tle.from_orbit raised {type(e).__name__}: {e} for fields {v}")
                return
            except Exception as e:  # noqa
                ctx.violate("write", dict(fp, kind="from_orbit_fails", exc=type(e).__name__), f"entry {k}: Tle.from_orbit raised {type(e).__name__}: {e} for fields {v}")
                return
            text = str(t)
            lines = text.splitlines()
            l1, l2 = lines[-2], lines[-1]
            ctx.checks += 1
            if len(l1) != 69 or len(l2) != 69:
                ctx.violate("write", dict(fp, kind="line_length"), f"entry {k}: written lines are {len(l1)} and {len(l2)} characters long: {l1!r} / {l2!r}")
            if str(checksum(l1)) != l1[68] or str(checksum(l2)) != l2[68]:
                ctx.violate("write", dict(fp, kind="wrong_checksum"), f"entry {k}: written checksum digits {l1[68]}/{l2[68]}, model {checksum(l1)}/{checksum(l2)}")
            try:
                pf = parse_fields(l1, l2)
                bad_ang = [k_ for k_ in ("raan", "argp", "M") if not (0.0 <= pf[k_] < 360.0)] + ([] if 0.0 <= pf["i"] <= 180.0 else ["i"])
            except Exception:  # noqa
                bad_ang = ["unreadable"]
            ctx.checks += 1
            if bad_ang:
                ctx.violate("write", dict(fp, kind="angle_field_out_of_range", field=bad_ang[0]), f"entry {k}: the written angle field(s) {bad_ang} are not in [0, 360):\n   {l2}")
            if rec["kind"] == "grid":
                m1, m2 = fmt_lines(rec)
                ctx.checks += 1
                if (l1, l2) != (m1, m2):
                    col = next((c for c in range(min(len(l1), len(m1))) if l1[c] != m1[c]), None) if l1 != m1 else None
                    col2 = next((c for c in range(min(len(l2), len(m2))) if l2[c] != m2[c]), None) if l2 != m2 else None
                    ctx.violate(
                        "write",
                        dict(fp, kind="text_differs_from_format", line=1 if l1 != m1 else 2),
                        f"entry {k}: written\n   {l1}\n   {l2}\nexpected from the field record\n   {m1}\n   {m2}\n(first difference line 1 col {col}, line 2 col {col2})",
                    )
                else:
                    ctx.probe("grid_entry_bytes_equal")
            name_line = rec.get("name")
            stored = ([name_line] if name_line else []) + [l1, l2]
            if name_line and name_line.startswith("0 "):
                pass  # "0 NAME" form of the 3LE
            entries.append({"lines": stored, "l1": l1, "l2": l2, "want": v, "exact": rec["kind"] == "grid", "dt": dt, "name": (name_line[2:] if name_line and name_line.startswith("0 ") else name_line) or "", "fp": fp})
            _probe_rec(ctx, rec)
    if not entries:
        return
    # the catalogue on the disk
    cat_lines = []
    for k, e in enumerate(entries):
        if kn.get("comments") and k % 2 == 0:
            cat_lines.append(f"# entry {k}")
        cat_lines.extend(e["lines"])
    import random as _random

    lay = _random.Random("c12-layout:" + repr([r_["norad"] for r_ in kn["records"]])).choice(["lf", "lf", "crlf", "blank", "noeol", "crlf_blank"])
    eol = "\r\n" if lay.startswith("crlf") else "\n"
    if "blank" in lay:
        # blank lines between entries (and a last line of blanks)
        spaced = []
        for ln in cat_lines:
            if ln.startswith("1 ") and spaced and not spaced[-1].startswith(("0 ", "#")) and spaced[-1].startswith("2 "):
                spaced.append("")
            spaced.append(ln)
        cat_lines_w = spaced + ["   "]
    else:
        cat_lines_w = cat_lines
    W.disk.write("/cat/catalog.tle", eol.join(cat_lines_w) + ("" if lay == "noeol" else eol))
    ctx.probe("catalogue_layout_" + lay)
    if kn.get("three_line"):
        ctx.probe("three_line_form")
    # ------------------------------------------------------------ reader (fresh process)
    ctx.fault("restart")
    stored_text = W.disk.read("/cat/catalog.tle")
    with R:
        TleR = R.Tle
        TleErr = R.mod("beyond.io.tle").TleParseError
        # ---- no fault: the catalogue yields exactly its entries
        got = list(TleR.from_string(stored_text, error="raise"))
        ctx.checks += 1
        if len(got) != len(entries):
            ctx.violate("catalogue", {"kind": "wrong_entry_count", "fault": "none"}, f"intact catalogue of {len(entries)} entries yields {len(got)}")
        for k, (e, t) in enumerate(zip(entries, got)):
            check_entry(ctx, R, TleR, e, t, k)
        # ---- per-entry exhaustive storage faults
        for op in plan["ops"]:
            if op["op"] == "enumerate_entry" and op["entry"] < len(entries):
                enumerate_entry(ctx, TleR, TleErr, entries[op["entry"]], op["entry"])
                ctx.ops_done += 1
                ctx.nontrivial = True
                ctx.sig.append(("enum", entries[op["entry"]]["l1"][:8] + "/" + str(sorted(entries[op["entry"]]["fp"].items()))))
        # ---- catalogue faults
        faults = [op for op in plan["ops"] if op["op"] == "catalogue_fault"]
        if kn.get("all_line_faults"):
            nl = len(cat_lines)
            faults = faults + [{"op": "catalogue_fault", "kind": kd, "line": ln, "col": 10, "digit": 1, "policy": pol} for kd in ("lose", "dup", "swap") for ln in range(nl) for pol in ("ignore",)]
        for op in faults:
            catalogue_fault(ctx, R, TleR, TleErr, cat_lines, entries, op)
            ctx.ops_done += 1
    ctx.ev("done", len(entries), hashlib.md5(stored_text.encode()).hexdigest()[:16])
    ctx.state(tuple(sorted((r["kind"], len(str(r["elnb"])), len(str(r["rev"])), r["designator"] is None, r["nddot"][0] == 0, r["bstar"][2], r["ndot_half_e8"] < 0) for r in recs)))


def _probe_rec(ctx, rec):
    if rec["elnb"] >= 1000:
        ctx.probe("four_digit_element_number")
    if rec["rev"] >= 10000:
        ctx.probe("five_digit_revolutions")
    if rec["ndot_half_e8"] < 0:
        ctx.probe("negative_ndot")
    if rec["bstar"][2] and rec["bstar"][0]:
        ctx.probe("negative_bstar")
    if rec["bstar"][0] == 0 and rec["nddot"][0] == 0:
        ctx.probe("zero_drag_terms")
    if rec["designator"] is None:
        ctx.probe("empty_designator")
    if rec["kind"] == "free" and rec["free"]["sod_us"] >= 86400000000 - 432:
        ctx.probe("epoch_last_ms_before_midnight")


def check_entry(ctx, R, TleR, e, t, k):
    """Parsed entry == model record; writing it back gives the identical lines (name line included)."""
    fp = e["fp"]
    got = fields_of_tle(t)
    want = e["want"] if e["exact"] else parse_fields(e["l1"], e["l2"])
    ctx.checks += 1
    bad = cmp_fields(want, got, exact=True)
    if bad:
        ctx.violate("parse", dict(fp, kind="parsed_field_differs", field=bad[0]), f"entry {k}: parsed {bad[0]} = {got[bad[0]]!r}, the stored text says {want[bad[0]]!r}\n   {e['l1']}\n   {e['l2']}")
    if not e["exact"]:
        # any orbit that can be written parses back to the same elements, at printed precision
        bad = cmp_fields(e["want"], got, exact=False)
        ctx.checks += 1
        if bad:
            ctx.violate("write", dict(fp, kind="written_field_differs", field=bad[0]), f"entry {k}: the orbit had {bad[0]} = {e['want'][bad[0]]!r}, its TLE parses back to {got[bad[0]]!r}\n   {e['l1']}\n   {e['l2']}")
        else:
            ctx.probe("free_entry_parsed_back")
    # epoch within 1e-8 day
    from datetime import datetime

    dt = t.epoch.datetime
    dd = (dt - e["dt"]).total_seconds() / 86400.0
    ctx.checks += 1
    ctx.observe("epoch_err_day", abs(dd))
    if abs(dd) > TOLERANCES["epoch_day"] * (1.0 if e["exact"] else 0.51) + 1e-11:
        ctx.violate("parse" if e["exact"] else "write", dict(fp, kind="epoch_differs"), f"entry {k}: epoch {e['dt'].isoformat()} comes back as {dt.isoformat()} ({dd:.3e} day)\n   {e['l1']}")
    if (t.name or "") != e["name"]:
        ctx.violate("parse", dict(fp, kind="name_differs"), f"entry {k}: name {e['name']!r} parsed as {t.name!r}")
    # history on one Tle object: orbit(), mutate it in place, orbit() again, write back
    o1 = t.orbit()
    o1[2] = 0.5
    o1[0] = 0.1
    o1.bstar = 0.123
    o1.revolutions = 1
    o2 = t.orbit()
    ctx.probe("orbit_called_twice_with_mutation")
    # ... the orbit is handed to another worker and back (pickle) ...
    import pickle

    o2 = pickle.loads(pickle.dumps(o2))
    # ... and a frame change of the orbit that fails (the Hill frame cannot be converted to) leaves it as parsed
    try:
        o2.frame = "Hill"
    except Exception:  # noqa
        ctx.probe("failed_frame_change_before_writing_back")
    back = TleR.from_orbit(o2)
    txt = str(back).splitlines()
    ctx.checks += 1
    want_lines = ([e["name"]] if e["name"] else []) + [e["l1"], e["l2"]]
    yy = int(e["l1"][18:20])
    if not e["exact"] and int(e["l1"][20:23]) > _days_in_year((1900 if yy >= 57 else 2000) + yy):
        # an epoch in the last half 1e-8 day of a year is printed as day 366 (367) .00000000 of that year: the same instant within
        # 1e-8 day, but not a well-formed day number, so identical re-writing is not demanded of it
        ctx.probe("epoch_rounded_past_end_of_year")
    elif txt != want_lines:
        which = next((i for i in range(min(len(txt), len(want_lines))) if txt[i] != want_lines[i]), -1)
        ctx.violate(
            "round-trip",
            dict(fp, kind="rewritten_text_differs", line=which if len(txt) == len(want_lines) else "count"),
            f"entry {k}: Tle.from_orbit(tle.orbit()) gives\n   " + "\n   ".join(txt) + "\nstored\n   " + "\n   ".join(want_lines),
        )
    else:
        # what was written can be read and written again: a second cycle gives the same lines
        try:
            again = str(TleR.from_orbit(TleR("\n".join(txt)).orbit())).splitlines()
        except Exception as ex:  # noqa
            again = [f"{type(ex).__name__}: {ex}"]
        ctx.checks += 1
        if again != txt:
            ctx.violate("round-trip", dict(fp, kind="second_cycle_differs"), f"entry {k}: the lines written from the parsed orbit, parsed and written once more, give\n   " + "\n   ".join(again) + "\nfirst cycle\n   " + "\n   ".join(txt))
    small_adjustment(ctx, TleR, e, t, k)


def small_adjustment(ctx, TleR, e, t, k):
    """An orbit obtained from a parsed TLE is adjusted by a few printed units of one element (orbit determination, station keeping)
    and written back: the new lines carry the new value at printed precision, the other element fields are unchanged."""
    import math

    fp = e["fp"]
    l2 = e["l2"]
    cols = [(8, 16, 1e4), (17, 25, 1e4), (26, 33, 1e7), (34, 42, 1e4), (43, 51, 1e4), (52, 63, 1e8)]
    h = sum(ord(c) for c in l2) + 7 * k
    idx = h % 6
    units = 2 + (h // 6) % 29
    lo, hi, sc = cols[idx]
    try:
        printed = [int(round(float(("0." + l2[a:b].strip()) if q == 2 else l2[a:b]) * f)) for q, (a, b, f) in enumerate(cols)]
    except ValueError:
        return
    limit = {0: 1800000, 1: 3600000, 2: 9999999, 3: 3600000, 4: 3600000, 5: 1700000000}[idx]
    if printed[idx] + units >= limit:
        units = -units
    if printed[idx] + units < 0:
        return
    o = t.orbit()
    delta = units / sc
    if idx == 2:
        o[idx] = float(o[idx]) + delta
    elif idx == 5:
        o[idx] = float(o[idx]) + delta * 2 * math.pi / 86400.0
    else:
        o[idx] = float(o[idx]) + math.radians(delta)
    try:
        txt = str(TleR.from_orbit(o)).splitlines()
    except Exception as ex:  # noqa
        ctx.violate("write", dict(fp, kind="adjusted_orbit_not_written", exc=type(ex).__name__), f"entry {k}: an orbit from Tle.orbit() whose element {idx} was moved by {units} printed units cannot be written: {type(ex).__name__}: {ex}")
        return
    # ... and the orbit of the parsed TLE expressed in another frame (still in TLE form) is written as the TEME elements it stands for
    degenerate = printed[2] < 2000 or printed[2] > 9000000 or printed[0] < 2000 or printed[0] > 1800000 - 2000  # near-parabolic, near-circular / near-equatorial: perigee and node are ill-defined
    try:
        if degenerate:
            raise ArithmeticError("degenerate elements")
        o4 = t.orbit()
        o4.frame = "EME2000" if (h % 2) else "MOD"
        l2b = str(TleR.from_orbit(o4)).splitlines()[-1]
        gotb = [int(round(float(("0." + l2b[a:b].strip()) if q == 2 else l2b[a:b]) * f)) for q, (a, b, f) in enumerate(cols)]
    except Exception as ex:  # noqa
        gotb = f"{type(ex).__name__}: {ex}"
    ctx.checks += 1
    if not degenerate:
        ctx.probe("orbit_in_another_frame_written_back")
    tolb = [2, 2, 2, 2, 2, 3]
    okb = isinstance(gotb, list) and all(min(abs(g_ - p_), (360 * 10**4 - abs(g_ - p_)) if q_ in (1, 3, 4) else 10**12) <= tolb[q_] for q_, (g_, p_) in enumerate(zip(gotb, printed)))
    # near-circular / near-equatorial orbits: perigee and node are ill-defined, only their sums are kept by a frame change
    if degenerate:
        okb = True
    if not okb:
        ctx.violate("write", dict(fp, kind="orbit_in_another_frame_written_differently"), f"entry {k}: the orbit of the parsed TLE, moved in place to another frame and written back, gives element fields {gotb}; parsed from\n   {l2}\n(fields {printed})")
        return
    n2 = txt[-1]
    ctx.checks += 1
    ctx.probe("small_adjustment_written_back")
    try:
        got = [int(round(float(("0." + n2[a:b].strip()) if q == 2 else n2[a:b]) * f)) for q, (a, b, f) in enumerate(cols)]
    except ValueError:
        got = None
    want = list(printed)
    want[idx] += units
    if got != want:
        ctx.violate(
            "write",
            dict(fp, kind="adjusted_element_not_written", field=idx),
            f"entry {k}: the orbit of the parsed TLE had element {idx} (i, raan, e, argp, M, n) moved by {units} printed units; written back as\n   {n2}\nparsed from\n   {l2}\nexpected element fields {want}, got {got}",
        )


def _accepts(TleR, TleErr, l1, l2):
    """None if rejected with TleParseError, 'accepted' / exception class name otherwise."""
    try:
        TleR(l1 + "\n" + l2)
    except TleErr:
        return None
    except Exception as e:  # noqa
        return type(e).__name__
    return "accepted"


def enumerate_entry(ctx, TleR, TleErr, e, k):
    l1, l2 = e["l1"], e["l2"]
    fp = e["fp"]
    n = 0
    for li, line in ((1, l1), (2, l2)):
        for col, ch in enumerate(line):
            if not ch.isdigit() or col == 0:
                continue
            for d in "0123456789":
                if d == ch:
                    continue
                bad = line[:col] + d + line[col + 1 :]
                res = _accepts(TleR, TleErr, bad if li == 1 else l1, bad if li == 2 else l2)
                n += 1
                if res is not None:
                    ctx.violate("validation", dict(fp, kind="corrupted_digit_" + ("accepted" if res == "accepted" else "crashes"), line=li, exc=res), f"entry {k}: line {li} column {col + 1}: digit {ch} -> {d} is {'accepted' if res == 'accepted' else 'answered with ' + res + ' instead of TleParseError'}\n   {bad}")
    ctx.checks += n
    ctx.fault("digit_flip")
    ctx.faults["digit_flip"] += n - 1
    ctx.probe("digit_flips_rejected")
    # line number
    n = 0
    for li, line in ((1, l1), (2, l2)):
        for d in "0123456789 AX":
            if d == line[0]:
                continue
            bad = d + line[1:]
            res = _accepts(TleR, TleErr, bad if li == 1 else l1, bad if li == 2 else l2)
            n += 1
            if res is not None:
                ctx.violate("validation", dict(fp, kind="wrong_line_number_" + ("accepted" if res == "accepted" else "crashes"), line=li, exc=res), f"entry {k}: line {li} numbered {d!r} is {'accepted' if res == 'accepted' else 'answered with ' + res}")
    ctx.checks += n
    ctx.faults["line_number_sub"] += n
    ctx.probe("line_number_subs_rejected")
    # lengths
    n = 0
    for li, line in ((1, l1), (2, l2)):
        for ln in list(range(0, 69)) + [70, 75]:
            bad = line[:ln] if ln <= 69 else line + "0" * (ln - 69)
            res = _accepts(TleR, TleErr, bad if li == 1 else l1, bad if li == 2 else l2)
            n += 1
            if res is not None:
                ctx.violate("validation", dict(fp, kind="wrong_length_" + ("accepted" if res == "accepted" else "crashes"), line=li, exc=res, length="short" if ln < 69 else "long"), f"entry {k}: line {li} cut to {ln} characters is {'accepted' if res == 'accepted' else 'answered with ' + res + ' instead of TleParseError'}")
    ctx.checks += n
    ctx.faults["truncation"] += n
    ctx.probe("truncations_rejected")


def catalogue_fault(ctx, R, TleR, TleErr, cat_lines, entries, op):
    """One storage fault on the catalogue text; the reader must yield exactly the entries whose two lines are intact and
    adjacent (comment lines apart), each equal to what was written."""
    lines = list(cat_lines)
    tags = []  # parallel to lines: (entry index, role) of intact lines, None for damaged / foreign ones
    for k, e in enumerate(entries):
        pass
    # tag every line of the pristine catalogue
    tags = []
    it = iter(range(len(entries)))
    for ln in cat_lines:
        tags.append(None)
    pos = 0
    for k, e in enumerate(entries):
        while cat_lines[pos].startswith("#"):
            pos += 1
        for role in (["name"] if len(e["lines"]) == 3 else []) + ["l1", "l2"]:
            tags[pos] = (k, role)
            pos += 1
    idx = op["line"] % len(lines)
    kind = op["kind"]
    if kind == "lose":
        del lines[idx], tags[idx]
    elif kind == "dup":
        lines.insert(idx, lines[idx])
        tags.insert(idx, tags[idx])
    elif kind == "swap":
        if idx + 1 >= len(lines):
            return
        lines[idx], lines[idx + 1] = lines[idx + 1], lines[idx]
        tags[idx], tags[idx + 1] = tags[idx + 1], tags[idx]
    elif kind == "corrupt":
        ln = lines[idx]
        cols = [c for c, ch in enumerate(ln) if ch.isdigit() and c > 0]
        if not cols or tags[idx] is None or tags[idx][1] == "name":
            return
        c = cols[op["col"] % len(cols)]
        nd = str((int(ln[c]) + op["digit"]) % 10)
        lines[idx] = ln[:c] + nd + ln[c + 1 :]
        tags[idx] = None
    elif kind == "zero_to_letter":
        # a '0' read as the letter 'O' (OCR / retyping): letters do not count in the checksum, so line number, length and checksum
        # are all still right, but the field cannot be read: the entry must be skipped (or refused under 'raise'), the others yielded
        ln = lines[idx]
        cols = [c for c, ch in enumerate(ln) if ch == "0" and 18 <= c < 63]
        if not cols or tags[idx] is None or tags[idx][1] == "name":
            return
        c = cols[op["col"] % len(cols)]
        lines[idx] = ln[:c] + "O" + ln[c + 1 :]
        tags[idx] = None
    elif kind == "truncate":
        if tags[idx] is None or tags[idx][1] == "name":
            return
        lines[idx] = lines[idx][: 1 + op["col"] % 68]
        tags[idx] = None
    # expected: entries with l1 immediately followed by l2 (comments skipped)
    eff = [(ln, tg) for ln, tg in zip(lines, tags) if not ln.startswith("#") and ln.strip()]
    expected = []
    for i in range(len(eff) - 1):
        a, b = eff[i][1], eff[i + 1][1]
        if a and b and a[0] == b[0] and a[1] == "l1" and b[1] == "l2":
            named = i > 0 and eff[i - 1][1] == (a[0], "name")
            if i > 0 and (eff[i - 1][1] is None or (eff[i - 1][1][1] == "name" and not named)):
                named = None  # preceded by a damaged line, or by another entry's name line: indistinguishable from a name line
            expected.append((a[0], named))
    text = "\n".join(lines) + "\n"
    pol = op["policy"]
    ctx.fault("catalogue_" + kind)
    handler = LogCatcher()
    lg = logging.getLogger("beyond.io.tle")
    old_disable = logging.root.manager.disable
    logging.disable(logging.NOTSET)
    lg.addHandler(handler)
    old_prop = lg.propagate
    lg.propagate = False
    got, exc = [], None
    try:
        for t in TleR.from_string(text, error=pol):
            got.append(t)
    except Exception as e:  # noqa
        exc = e
    finally:
        lg.removeHandler(handler)
        lg.propagate = old_prop
        logging.disable(old_disable)
    ctx.checks += 1
    ctx.probe("catalogue_fault_checked")
    ctx.ev("catalogue_fault", kind, idx, pol, len(got), type(exc).__name__ if exc else "-", ",".join(str(t.norad_id) for t in got))
    fp = {"fault": kind, "policy": pol, "three_line": len(entries[0]["lines"]) == 3}
    desc = f"catalogue fault '{kind}' at line {idx} (policy {pol}, {'3' if fp['three_line'] else '2'}-line form, {len(entries)} entries)"
    damaged_then_valid = any(tg is None for _, tg in eff) and expected and True
    if damaged_then_valid:
        ctx.probe("damaged_entry_followed_by_valid")
    if exc is not None:
        if pol == "raise" and isinstance(exc, TleErr):
            # everything yielded before the rejection must still be right
            for t, (k, named) in zip(got, expected):
                _cmp_yield(ctx, entries, t, k, named, fp, desc)
            return
        ctx.violate("catalogue", dict(fp, kind="from_string_crashes", exc=type(exc).__name__), f"{desc}: from_string raised {type(exc).__name__}: {exc}")
        return
    if len(got) != len(expected):
        ctx.violate(
            "catalogue",
            dict(fp, kind="wrong_entry_count", delta=("more" if len(got) > len(expected) else "fewer")),
            f"{desc}: {len(expected)} entries are intact (entries {[k for k, _ in expected]}) but {len(got)} are yielded (catalogue numbers {[t.norad_id for t in got]})\n   " + "\n   ".join(lines),
        )
        return
    for t, (k, named) in zip(got, expected):
        _cmp_yield(ctx, entries, t, k, named, fp, desc)
    if pol == "warn":
        n_rejected_candidates = sum(1 for ln, tg in eff if ln.startswith("2 ")) - len(expected)
        if n_rejected_candidates > 0:
            ctx.checks += 1
            if not handler.records:
                ctx.violate("catalogue", dict(fp, kind="no_warning_logged"), f"{desc}: an entry was rejected under error='warn' but nothing was logged")
            else:
                ctx.probe("catalogue_warn_logged")


def _cmp_yield(ctx, entries, t, k, named, fp, desc):
    e = entries[k]
    got = fields_of_tle(t)
    want = e["want"] if e["exact"] else parse_fields(e["l1"], e["l2"])
    bad = cmp_fields(want, got, exact=True)
    ctx.checks += 1
    if bad:
        ctx.violate("catalogue", dict(fp, kind="yielded_entry_differs", field=bad[0]), f"{desc}: yielded entry (catalogue number {t.norad_id}) differs from the stored entry {k} in {bad}")
    want_name = e["name"] if named else ""
    if named is None:
        return
    if (t.name or "") != want_name:
        ctx.violate("catalogue", dict(fp, kind="yielded_entry_wrong_name"), f"{desc}: entry {k} is yielded with name {t.name!r}, stored name line {'is ' + repr(e['name']) if named else 'is not intact / absent'}")


def simplify(plan):
    kn = plan["knobs"]
    recs = kn["records"]
    if len(recs) > 1:
        for i in range(len(recs)):
            ops = [o for o in plan["ops"] if not (o["op"] == "enumerate_entry" and o["entry"] >= len(recs) - 1)]
            yield dict(plan, knobs=dict(kn, records=recs[:i] + recs[i + 1 :]), ops=ops)
    if kn.get("all_line_faults"):
        yield dict(plan, knobs=dict(kn, all_line_faults=False))
    if kn.get("comments"):
        yield dict(plan, knobs=dict(kn, comments=False))
    for i, r in enumerate(recs):
        if r["kind"] == "free":
            yield dict(plan, knobs=dict(kn, records=recs[:i] + [dict(r, kind="grid")] + recs[i + 1 :]))
