"""C09 - ephemeris interpolation is exact at nodes and accurate between them.

As quantified the property is a function of (table, order, query date); in the code it is not:
the interpolator is built lazily at the first query and keeps a *copy* of the table, and the
Ephem object is meant to be manipulated in place (`ephem.frame = 'ITRF'`, `ephem.form = ...`,
`ephem.method / order = ...` are its documented API).  So the clauses are checked for the
ephemeris *as it is now*, along seeded histories of queries interleaved with in-place
conversions, setting changes, partially consumed iterations, copies and pickles through another
process, against a pristine node that rebuilds a fresh ephemeris from the current points
(DESIGN.md 11.6)."""

import pickle

import numpy as np

from sim.node import Node
from sim import world
from sim.core import fhex

LEVEL = "exploration"
TIERS = {
    "quick": {"runs": 2500, "max_wall": 150, "chunk": 20},
    "thorough": {"runs": 150000, "max_wall": 1700, "chunk": 40},
}
RULE = (
    "one run = one seeded table (Keplerian arc or polynomial trajectory, 2..40 points, uniform or mildly non-uniform sampling, Lagrange order 2..12 or "
    "linear, every built-in frame, cartesian or spherical form) and a history of 4..12 operations on the Ephem object: interpolation at a node, inside the "
    "first / last / a middle interval, just outside the table; in-place frame and form changes, method / order changes, a partially consumed iteration "
    "continued later, copy(), pickling through another process, transparent cache drop. distinct = distinct (table class, order, operation sequence) "
    "signatures; non-trivial = an interpolation was judged after an in-place change, a setting change, a copy / pickle or next to a suspended iteration"
)
STATE_MEASURE = "(method, order vs length class, operation kinds before the judged interpolation, query position class)"
PROBES = [
    "node_exact", "between_nodes", "first_interval", "last_interval", "outside_refused", "interp_after_inplace_frame_change", "interp_after_inplace_form_change",
    "interp_after_setting_change", "interp_after_pickle", "interp_after_copy", "interp_next_to_suspended_iteration", "polynomial_reproduced", "too_short_table_refused", "node_exact_to_rounding_linear", "converted_copy_taken",
    "cache_dropped", "other_ephemeris_used_in_the_same_process", "interp_after_other_ephemeris", "column_extracted_and_changed", "interp_after_column_changed", "interpolated_point_changed_by_caller", "interp_after_result_changed_by_caller", "frame_change_failed_on_first_point", "interp_after_failed_frame_change", "other_spelling_of_method_refused", "interp_class_used_directly",
]
REAL_VS_STUB = "real: beyond.orbits.ephem.Ephem, beyond.utils.interp (Interp / DatedInterp), StateVector frame / form conversions, pickle; stub: none; model: a fresh Ephem rebuilt from the current points on a pristine node, the stored points themselves (node exactness), the generating polynomial"
ASSUMPTIONS = [
    "the interpolation arithmetic itself (basis evaluation, window selection) is compared with the same code on a pristine node and with polynomials of degree < order: an error common to every history and invisible on polynomials would not be seen",
    "centimetre accuracy on smooth orbits is sampled (observed maxima reported), not bounded by the oracle",
]
SAMPLED_ONLY = ["accuracy between nodes for a smooth orbit (numerics of a pure function): observed maxima only"]
TOLERANCES = {"fresh_rel": 1e-12, "poly_rel": 1e-9}

INERTIAL = ["EME2000", "MOD", "TOD", "TEME", "GCRF", "CIRF", "G50"]
ROTATING = ["ITRF", "PEF", "TIRF"]


def gen_plan(rng, tier, i):
    order = rng.choice([2, 3, 4, 5, 6, 7, 8, 8, 8, 9, 10, 11, 12])
    method = rng.choice(["lagrange", "lagrange", "lagrange", "linear"])
    npts = rng.choice([order, order, order + 1, order + 3, rng.randint(order, 40), rng.randint(2, 40)])
    a = rng.uniform(6.9e6, 4.2e7)
    spec = {
        "table": rng.choice(["kepler", "kepler", "poly"]),
        "kep": [a, rng.uniform(0.001, 0.3), rng.uniform(0.05, 3.0), rng.uniform(0, 6.28), rng.uniform(0, 6.28), rng.uniform(0, 6.28)],
        "epoch": [rng.randint(55000, 59000), float(rng.randint(0, 86399))],
        "npts": max(2, npts),
        "step_s": float(rng.choice([30, 60, 120, 180, 300])),
        "jitter": rng.choice([0.0, 0.0, 0.1, 0.25]),
        "jseed": rng.randrange(1 << 30),
        "order": order,
        "method": method,
        "frame": rng.choice(INERTIAL + ["EME2000", "ITRF"]),
        "form": rng.choice(["cartesian", "cartesian", "cartesian", "spherical"]),
        "degree": rng.randint(0, max(0, (order if method == "lagrange" else 2) - 1)),
        # the points may be handed to the constructor in any order (two arcs concatenated latest first, a grid plus extra dates...)
        "given_order": rng.choice(["sorted", "sorted", "reversed", "shuffled", "arcs_swapped"]),
        "sampling": rng.choice(["regular", "regular", "two_rates", "drift"]),
    }
    ops = []
    for _ in range(rng.randint(4, 12) if tier != "thorough" else rng.randint(8, 24)):
        k = rng.choice(["interp"] * 7 + ["set_frame", "set_frame", "set_form", "set_order", "set_method", "iter_start", "iter_next", "copy", "copy_convert", "pickle", "drop_cache"])
        op = {"op": k}
        if k == "interp":
            op.update(where=rng.choice(["node", "node", "between", "between", "first", "last", "before", "after"]), k=rng.randrange(64), frac=rng.choice([0.5, 0.01, 0.99, rng.random()]), out_us=rng.choice([1, 1000, 10**6, 3600 * 10**6]))
        elif k == "set_frame":
            op["frame"] = rng.choice(INERTIAL + ROTATING)
        elif k == "set_form":
            op["form"] = rng.choice(["cartesian", "spherical", "cartesian"])
        elif k == "set_order":
            op["order"] = rng.choice([2, 4, 6, 8, 10, 12])
        elif k == "set_method":
            op["method"] = rng.choice(["linear", "lagrange"])
        elif k == "copy_convert":
            op.update(frame=rng.choice([None] + INERTIAL + ROTATING), form=rng.choice([None, "spherical", "cartesian"]))
        elif k == "iter_start":
            op.update(step_frac=rng.choice([0.5, 0.37, 2.0]), n=rng.randint(1, 3))
        elif k == "iter_next":
            op["n"] = rng.randint(1, 4)
        ops.append(op)
    import random

    child = random.Random("c09-child:" + repr(spec["jseed"]) + repr(len(ops)))  # operations added after the first version: own generator, earlier plans keep their draws
    if child.random() < 0.3:
        spec["scale"] = child.choice(["TT", "GPS", "TAI", "TT"])  # a table dated in another time scale (offset to TAI not zero)
    if child.random() < 0.3:
        # another ephemeris alive in the same process: same dates at both ends of many interpolation windows, other dates (and values) inside
        ops.insert(child.randint(0, max(0, len(ops) // 2)), {"op": "decoy", "seed": child.randrange(1 << 30), "p": child.choice([0.25, 0.4, 0.6]), "shift": child.choice([0.3, -0.3, 0.11])})
    for o_ in list(ops):
        if o_["op"] == "interp" and o_["where"] not in ("before", "after") and child.random() < 0.3:
            # the caller changes the point it was handed (in place), and some ask for the same date again right away
            o_["scribble"] = child.choice(["form", "values", "frame"])
            if child.random() < 0.6:
                ops.insert(ops.index(o_) + 1, dict(o_, scribble=None))
    if child.random() < 0.2:
        # an in-place frame change that fails on the very first point (a frame attached to an object which does not cover these dates)
        ops.insert(child.randint(0, len(ops)), {"op": "set_frame_fail"})
    if child.random() < 0.2:
        # other spellings of the method names (an OEM header says "LINEAR" / "Lagrange"), set after or before the first use
        ops.insert(child.randint(0, len(ops)), {"op": "set_method", "method": child.choice(["Linear", "LINEAR", "Lagrange", "LAGRANGE"])})
    if child.random() < 0.2:
        # the interpolator class used directly on numpy arrays (Interp(xs, ys, method, order)), two interpolators on one time grid
        ops.insert(child.randint(0, len(ops)), {"op": "direct_interp", "seed": child.randrange(1 << 30)})
    if child.random() < 0.25:
        # the caller extracts a column (the example of the class docstring) and works on it in place
        ops.insert(child.randint(0, len(ops)), {"op": "column_scribble", "col": child.choice([0, 1, 2, 3, 5, "0:3", "all"]), "factor": child.choice([1e-3, 0.0, -1.0])})
    return {"knobs": {"spec": spec}, "ops": ops}


def table_dates_s(spec):
    rs = np.random.RandomState(spec["jseed"])
    t = [0.0]
    for q in range(spec["npts"] - 1):
        rate = 1.0
        if spec.get("sampling") == "two_rates" and q >= (spec["npts"] - 1) // 2:
            rate = 3.0  # two successive date ranges with different steps (the example of the Ephem.iter docstring)
        elif spec.get("sampling") == "drift":
            rate = 1.0 + q / max(spec["npts"] - 2, 1)  # the step drifts from 1x to 2x along the table
        t.append(t[-1] + spec["step_s"] * rate * (1.0 + spec["jitter"] * float(rs.uniform(-1, 1))))
    return [round(x, 3) for x in t]


def poly_coeffs(spec):
    rs = np.random.RandomState(spec["jseed"] + 1)
    return rs.uniform(-1, 1, size=(6, spec["degree"] + 1)) * np.array([7e6, 7e6, 7e6, 7e3, 7e3, 7e3])[:, None]


def poly_eval(spec, t_s):
    c = poly_coeffs(spec)
    span = max(table_dates_s(spec)[-1], 1.0)
    x = t_s / span
    return np.array([sum(c[i, d] * x**d for d in range(c.shape[1])) for i in range(6)])


def build_ephem(node, spec):
    td = node.timedelta
    epoch = world.mk_date(node, spec["epoch"], spec.get("scale", "UTC"))
    pts = []
    if spec["table"] == "kepler":
        orb = node.Orbit(spec["kep"], epoch, "keplerian", "EME2000", node.mod("beyond.propagators.kepler").Kepler())
    for t in table_dates_s(spec):
        d = epoch + td(seconds=t)
        if spec["table"] == "kepler":
            p = orb.propagate(d)
            p = p.as_statevector()
            p.form = "cartesian"
            if spec["frame"] != "EME2000":
                p.frame = spec["frame"]
            if spec["form"] != "cartesian":
                p.form = spec["form"]
        else:
            p = node.StateVector(poly_eval(spec, t), d, "cartesian", spec["frame"])
        pts.append(p)
    go = spec.get("given_order", "sorted")
    if go == "reversed":
        pts = pts[::-1]
    elif go == "shuffled":
        np.random.RandomState(spec["jseed"] + 7).shuffle(pts)
    elif go == "arcs_swapped":
        h = len(pts) // 2
        pts = pts[h:] + pts[:h]
    return node.Ephem(pts, method=spec["method"], order=spec["order"])


def describe_points(eph):
    return [(np.array(p, dtype=float).tobytes(), p.form.name, p.frame.name, (p.date.d, float(p.date.s).hex(), p.date.scale.name)) for p in eph]


class World:
    def __init__(self, plan, ctx):
        self.plan, self.ctx = plan, ctx
        self.spec = plan["knobs"]["spec"]
        self.node = self.mknode("sys")
        self.pristine = self.mknode("pristine")
        with self.node:
            self.eph = build_ephem(self.node, self.spec)
        self.m_method, self.m_order = self.spec["method"], self.spec["order"]  # what the caller set last
        self.pure = True  # only the statement's own inputs so far (no in-place change since creation)
        self.since = set()  # what happened since the last judged interpolation
        self.it = None
        self.it_dates = None

    def mknode(self, name):
        n = Node(name)
        with n:
            n.config.update({"eop": {"missing_policy": "pass"}})
        return n

    def fresh_value(self, date_key, method, order):
        """What a fresh ephemeris made of the *current* points gives at that date, on the pristine node."""
        with self.node:
            pts = describe_points(self.eph)
        p = self.pristine
        with p:
            objs = []
            for vals, form, frame, (d, s, sc) in pts:
                objs.append(p.StateVector(np.frombuffer(vals).copy(), _date(p, d, s, sc), form, frame))
            e = p.Ephem(objs, method=method, order=order)
            r = e.interpolate(_date(p, *date_key))
            return np.array(r, dtype=float), r.form.name, r.frame.name

    def run(self):
        ctx = self.ctx
        for step, op in enumerate(self.plan["ops"]):
            where = f"op#{step} {op['op']}"
            getattr(self, "op_" + op["op"])(op, where)
            ctx.ops_done += 1
            ctx.sig.append(op["op"] + (":" + op.get("where", "") if op["op"] == "interp" else ""))

    # ------------------------------------------------------------------ ops
    def op_interp(self, op, where):
        ctx = self.ctx
        n = self.node
        spec = self.spec
        with n:
            e = self.eph
            pts = list(e)
            npts = len(pts)
            method, order = str(e.method).lower(), int(e.order)
            if (method, order) != (self.m_method, self.m_order):
                ctx.violate(
                    "settings-kept",
                    {"kind": "interpolation_settings_changed_by_themselves", "after": ",".join(sorted(self.since)) or "-"},
                    f"{where}: the caller last set method / order to {self.m_method} / {self.m_order}, the ephemeris now says {method} / {order} (since the last query: {','.join(sorted(self.since)) or '-'})",
                )
            need = 2 if method == "linear" else order
            td = n.timedelta
            w = op["where"]
            k = op["k"] % npts
            if w == "node":
                date = pts[k].date
            elif w in ("between", "first", "last"):
                if npts < 2:
                    return
                k = 0 if w == "first" else (npts - 2 if w == "last" else op["k"] % (npts - 1))
                dt = (pts[k + 1].date - pts[k].date).total_seconds()
                date = pts[k].date + td(seconds=round(dt * op["frac"], 6))
            elif w == "before":
                date = pts[0].date - td(microseconds=op["out_us"])
            else:
                date = pts[-1].date + td(microseconds=op["out_us"])
            dkey = (date.d, float(date.s).hex(), date.scale.name)
            try:
                r = e.interpolate(date)
                exc = None
            except Exception as ex:  # noqa
                r, exc = None, ex
            eframe, eform = e.frame.name, e.form.name
        hist = ",".join(sorted(self.since)) or "-"
        fp = {"method": method, "where": w, "after": hist, "short": npts < need}
        ctx.checks += 1
        if self.since:
            ctx.nontrivial = True
            for s_ in self.since:
                ctx.probe({"frame": "interp_after_inplace_frame_change", "form": "interp_after_inplace_form_change", "setting": "interp_after_setting_change", "pickle": "interp_after_pickle", "copy": "interp_after_copy", "iter": "interp_next_to_suspended_iteration", "cache": "cache_dropped", "decoy": "interp_after_other_ephemeris", "column": "interp_after_column_changed", "scribble": "interp_after_result_changed_by_caller", "failed_frame": "interp_after_failed_frame_change"}[s_])
        ctx.state(method, "short" if npts < need else ("tight" if npts == need else "long"), w, hist)
        if w in ("before", "after"):
            if not isinstance(exc, ValueError):
                ctx.violate("refused-outside", dict(fp, kind="extrapolated"), f"{where}: interpolation {op['out_us']} us {w} the table returned {r if exc is None else type(exc).__name__} instead of being refused with ValueError")
            else:
                ctx.probe("outside_refused")
            return
        if npts < need:
            if not isinstance(exc, ValueError):
                ctx.violate("refused-outside", dict(fp, kind="short_table_not_refused"), f"{where}: a {npts}-point table interpolated with {method} order {order}: {type(exc).__name__ if exc else 'a value'} instead of ValueError")
            else:
                ctx.probe("too_short_table_refused")
            return
        if exc is not None and isinstance(exc, ValueError) and getattr(self, "m_method_raw", None) not in (None, "linear", "lagrange"):
            # the method was last set with another spelling ("Linear", "LAGRANGE"): refusing it is as good as honouring it
            ctx.probe("other_spelling_of_method_refused")
            return
        if exc is not None:
            ctx.violate("interpolation", dict(fp, kind="unexpected_exception", exc=type(exc).__name__), f"{where}: interpolation at a date inside the table ({w}, point {k} of {npts}, {method} order {order}) raised {type(exc).__name__}: {exc}")
            return
        got = np.array(r, dtype=float)
        ctx.ev("interp", w, k, fhex(got), r.frame.name, r.form.name)
        # ---- keeps the ephemeris' frame and form: the labels its points carry
        with n:
            plabels = {(p_.frame.name, p_.form.name) for p_ in pts}
        if len(plabels) == 1 and (r.frame.name, r.form.name) not in plabels:
            ctx.violate("frame-form-kept", dict(fp, kind="labels_differ_from_points"), f"{where}: interpolated point is labelled {r.frame.name}/{r.form.name}, every point of the ephemeris is {sorted(plabels)[0][0]}/{sorted(plabels)[0][1]} (since the last query: {hist})")
            return
        if (r.frame.name, r.form.name) != (eframe, eform):
            ctx.violate("frame-form-kept", dict(fp, kind="wrong_labels"), f"{where}: interpolated point is labelled {r.frame.name}/{r.form.name}, the ephemeris is in {eframe}/{eform}")
        # ---- exact at its own dates
        if w == "node":
            with n:
                want = np.array(pts[k], dtype=float)
            ctx.probe("node_exact")
            rel = float(np.max(np.abs(got - want) / (np.abs(want) + 1e-300)))
            with n:
                neigh = np.max(np.abs(np.array([np.array(pts[q], dtype=float) for q in (max(k - 1, 0), k, min(k + 1, npts - 1))])), axis=0)
            if got.tobytes() != want.tobytes() and method == "linear" and np.all(np.abs(got - want) <= 4.5e-16 * neigh):
                # y0 + (y1 - y0) * 1.0 is y1 to the last bit or two: "exactly" is read as "to the rounding of that formula" for the
                # linear method (the Lagrange basis is exactly 0 / 1 at a node and is held to bit equality)
                ctx.probe("node_exact_to_rounding_linear")
            elif got.tobytes() != want.tobytes():
                ctx.violate(
                    "node-exactness",
                    dict(fp, kind="node_not_exact", size="large" if rel > 1e-6 else "rounding"),
                    f"{where}: interpolating at the date of point {k} gives {got}, the point is {want} (history since the last query: {hist}; {method} order {order}, {npts} points)",
                )
                return
        else:
            ctx.probe({"between": "between_nodes", "first": "first_interval", "last": "last_interval"}[w])
        # ---- equal to a fresh ephemeris made of the current points
        fv, fform, fframe = self.fresh_value(dkey, method, order)
        scale = np.maximum(np.abs(fv), np.array([1.0] * 3 + [1e-3] * 3) if eform == "cartesian" else 1e-6)
        err = float(np.max(np.abs(got - fv) / scale))
        ctx.observe("fresh_rel", err)
        if err > TOLERANCES["fresh_rel"]:
            ctx.violate(
                "history-independence",
                dict(fp, kind="differs_from_fresh_ephemeris", size="large" if err > 1e-6 else "small"),
                f"{where}: interpolation ({w}, {method} order {order}) gives {got}; a fresh ephemeris built from the same {npts} current points gives {fv} (relative {err:.3e}); since the last query: {hist}",
            )
            return
        # ---- polynomial reproduction (pure function of the inputs: only while the table is as generated)
        if spec["table"] == "poly" and self.pure and method == spec["method"] and order == spec["order"] and (method == "lagrange" and spec["degree"] < order or method == "linear" and spec["degree"] <= 1):
            with n:
                t_s = (date - world.mk_date(n, spec["epoch"], spec.get("scale", "UTC"))).total_seconds()
            want = poly_eval(spec, t_s)
            sc = np.array([7e6] * 3 + [7e3] * 3)
            perr = float(np.max(np.abs(got - want) / sc))
            # the abscissa is a float MJD (resolution ~0.6 us at these dates): the value moves by |dP/dt| x 1 us at most
            span = max(table_dates_s(spec)[-1], 1.0)
            slope = float(np.max(np.sum(np.abs(poly_coeffs(spec)) * np.arange(spec["degree"] + 1), axis=1) / sc)) / span
            ctx.observe("poly_rel", perr)
            # ... and the rounding of the abscissa differences is amplified by the high-order basis on near-equispaced nodes
            if perr > TOLERANCES["poly_rel"] * (1.0 + 2.0 ** order) + 2e-6 * slope:
                ctx.violate("polynomial-reproduction", dict(fp, kind="polynomial_not_reproduced", degree=spec["degree"]), f"{where}: a degree-{spec['degree']} polynomial table interpolated with {method} order {order} is off by {perr:.3e} (relative) at {w}")
            else:
                ctx.probe("polynomial_reproduced")
        if spec["table"] == "kepler" and self.pure and method == "lagrange" and order >= 6 and eform == "cartesian":
            with n:
                orb = n.Orbit(spec["kep"], world.mk_date(n, spec["epoch"], spec.get("scale", "UTC")), "keplerian", "EME2000", n.mod("beyond.propagators.kepler").Kepler())
                truth = np.array(orb.propagate(date).copy(frame=eframe, form="cartesian"), dtype=float)
            ctx.observe(f"orbit_err_m_order{order}_step{int(spec['step_s'])}", float(np.linalg.norm(got[:3] - truth[:3])))
        self.since = set()
        if op.get("scribble"):
            # the caller owns the point it was handed
            with n:
                try:
                    if op["scribble"] == "form":
                        r.form = "spherical" if r.form.name != "spherical" else "cartesian"
                    elif op["scribble"] == "frame":
                        r.frame = "ITRF" if r.frame.name != "ITRF" else "EME2000"
                    else:
                        r[:3] = np.array(r[:3], dtype=float) / 1000.0
                except Exception:  # noqa
                    pass
            ctx.fault("consumer_mutates_item")
            ctx.probe("interpolated_point_changed_by_caller")
            self.since.add("scribble")

    def op_set_frame(self, op, where):
        with self.node:
            try:
                self.eph.frame = op["frame"]
            except Exception:  # noqa
                return
        self.pure = False
        self.since.add("frame")
        self.ctx.fault("inplace_conversion")

    def op_set_form(self, op, where):
        with self.node:
            try:
                self.eph.form = op["form"]
            except Exception:  # noqa
                return
        self.pure = False
        self.since.add("form")
        self.ctx.fault("inplace_conversion")

    def op_set_order(self, op, where):
        with self.node:
            self.eph.order = op["order"]
        self.m_order = op["order"]
        self.since.add("setting")

    def op_set_method(self, op, where):
        with self.node:
            self.eph.method = op["method"]
        self.m_method = op["method"].lower()
        self.m_method_raw = op["method"]
        self.since.add("setting")

    def op_set_frame_fail(self, op, where):
        """ephem.frame = <frame attached to an object that does not cover the dates of the table>: the conversion of the very first
        point fails, the ephemeris stays what it was."""
        ctx = self.ctx
        n = self.node
        with n:
            e = self.eph
            pts = list(e)
            if not getattr(self, "late_frame", None):
                Kepler = n.mod("beyond.propagators.kepler").Kepler
                d0 = pts[-1].date + n.timedelta(days=2)
                tgt = n.Orbit([7.3e6, 0.01, 0.8, 1.0, 2.0, 3.0], d0, "keplerian", "EME2000", Kepler())
                tgt.ephem(start=d0, stop=n.timedelta(minutes=30), step=n.timedelta(minutes=3)).as_frame("LateTarget")
                self.late_frame = "LateTarget"
            before = describe_points(e)
            try:
                e.frame = self.late_frame
                failed = False
            except Exception:  # noqa
                failed = True
            after = describe_points(e)
        if not failed:
            return
        ctx.fault("callee_fail_natural")
        ctx.probe("frame_change_failed_on_first_point")
        self.since.add("failed_frame")
        ctx.checks += 1
        if before != after:
            ctx.violate("history-independence", {"kind": "points_changed_by_failed_frame_change", "size": "large"}, f"{where}: ephem.frame = {self.late_frame} failed on the first point but the points of the ephemeris changed")

    def op_iter_start(self, op, where):
        n = self.node
        with n:
            e = self.eph
            pts = list(e)
            if len(pts) < max(2, 2 if str(e.method).lower() == "linear" else int(e.order)):
                return
            step = (pts[1].date - pts[0].date).total_seconds() * op["step_frac"]
            self.it = e.iter(step=n.timedelta(seconds=round(step, 3)))
        self.op_iter_next({"n": op["n"]}, where)

    def op_iter_next(self, op, where):
        if self.it is None:
            return
        ctx = self.ctx
        n = self.node
        for _ in range(op["n"]):
            with n:
                try:
                    p = next(self.it)
                except StopIteration:
                    self.it = None
                    return
                except Exception as e:  # noqa
                    self.it = None
                    return
                e = self.eph
                method, order = str(e.method).lower(), int(e.order)
                dkey = (p.date.d, float(p.date.s).hex(), p.date.scale.name)
                got = np.array(p, dtype=float)
            try:
                fv, _, _ = self.fresh_value(dkey, method, order)
            except Exception:  # noqa
                continue
            ctx.checks += 1
            eform = p.form.name
            scale = np.maximum(np.abs(fv), np.array([1.0] * 3 + [1e-3] * 3) if eform == "cartesian" else 1e-6)
            err = float(np.max(np.abs(got - fv) / scale))
            if err > TOLERANCES["fresh_rel"]:
                ctx.violate("history-independence", {"kind": "iterated_point_differs_from_fresh_ephemeris", "after": ",".join(sorted(self.since)) or "-", "size": "large" if err > 1e-6 else "small"}, f"{where}: a point yielded by a suspended-and-continued iteration differs from a fresh ephemeris of the current points by {err:.3e} (relative)")
                return
        if self.it is not None:
            self.since.add("iter")
            ctx.fault("iter_suspended")

    def op_copy(self, op, where):
        with self.node:
            self.eph = self.eph.copy()
            # Ephem.copy() builds the new ephemeris with the default method and order (no listed property says otherwise): re-read them
            self.m_method, self.m_order = str(self.eph.method).lower(), int(self.eph.order)
            self.m_method_raw = None
        self.it = None
        self.since.add("copy")

    def op_copy_convert(self, op, where):
        """ephem.copy(frame=..., form=...): a converted copy; the source ephemeris is left as it is."""
        ctx = self.ctx
        with self.node:
            before = describe_points(self.eph)
            kw = {k_: op[k_] for k_ in ("frame", "form") if op.get(k_)}
            try:
                c = self.eph.copy(**kw)
            except Exception:  # noqa
                return
            after = describe_points(self.eph)
            shared = any(a is b for a in c for b in self.eph)
        ctx.checks += 1
        ctx.probe("converted_copy_taken")
        self.since.add("copy")
        if before != after or shared:
            ctx.violate("history-independence", {"kind": "source_changed_by_converted_copy", "size": "large"}, f"{where}: ephem.copy({kw}) {'shares point objects with' if shared else 'changed the points of'} the ephemeris it was taken from")

    def op_decoy(self, op, where):
        """A second ephemeris is built and used in the same process (the points of the table under test, some inner ones re-dated and
        re-valued): nothing of it may show in the ephemeris under test."""
        n = self.node
        rs = np.random.RandomState(op["seed"])
        with n:
            e = self.eph
            pts = list(e)
            if len(pts) < 3:
                return
            method, order = str(e.method).lower(), int(e.order)
            new = []
            for q, pt in enumerate(pts):
                c = pt.copy()
                if 0 < q < len(pts) - 1 and rs.uniform() < op["p"]:
                    dt = (pts[q + 1].date - pt.date).total_seconds() if op["shift"] > 0 else (pt.date - pts[q - 1].date).total_seconds()
                    c = n.StateVector(np.array(pt, dtype=float) * (1.0 + 0.01 * rs.uniform(-1, 1)), pt.date + n.timedelta(seconds=round(dt * op["shift"], 3)), pt.form, pt.frame)
                new.append(c)
            decoy = None
            try:
                decoy = n.Ephem(new, method=method, order=order)
                for q in range(len(new) - 1):
                    decoy.interpolate(new[q].date)
                    decoy.interpolate(new[q].date + n.timedelta(seconds=round((new[q + 1].date - new[q].date).total_seconds() * 0.5, 3)))
            except ValueError:
                pass
        self.decoy = decoy  # stays alive
        self.ctx.probe("other_ephemeris_used_in_the_same_process")
        self.ctx.fault("other_object_in_process")
        self.since.add("decoy")

    def op_direct_interp(self, op, where):
        """Interp(xs, ys, method, order) on the caller's own float arrays: positions and velocities interpolated by two interpolators
        built on the same abscissa array.  Exact at the nodes, refused outside, equal to an interpolator built on copies of the
        arrays in a pristine process; the caller's arrays are left as they were."""
        ctx = self.ctx
        spec = self.spec
        t = np.array(table_dates_s(spec), dtype=np.float64) + float(spec["epoch"][0]) * 86400.0  # an abscissa far from zero
        vals = np.array([poly_eval(dict(spec, degree=min(spec.get("degree", 1), 3)), x - t[0]) for x in t], dtype=np.float64)
        method = self.spec["method"]
        order = min(int(self.spec["order"]), len(t))
        if len(t) < (2 if method == "linear" else order) or order < 2:
            return
        xs = t.copy()
        pos, vel = vals[:, :3].copy(), vals[:, 3:].copy()
        rs = np.random.RandomState(op["seed"])
        queries = [float(t[k_]) for k_ in rs.randint(0, len(t), size=3)] + [float(t[k_] + (t[k_ + 1] - t[k_]) * rs.uniform(0.1, 0.9)) for k_ in rs.randint(0, len(t) - 1, size=3)]
        outside = [float(t[0] - 1.0), float(t[-1] + 1.0)]

        def run(node, xs_, pos_, vel_):
            I = node.mod("beyond.utils.interp").Interp
            f1 = I(xs_, pos_, method, order)
            f2 = I(xs_, vel_, method, order)  # a second interpolator on the same grid array
            raw = [(f1(q), f2(q)) for q in queries]  # the caller keeps what it is handed and looks at it later
            out = [(np.array(a_, dtype=float), np.array(b_, dtype=float)) for a_, b_ in raw]
            ref = []
            for q in outside:
                for f in (f1, f2):
                    try:
                        f(q)
                        ref.append("value")
                    except ValueError:
                        ref.append("refused")
                    except Exception as e:  # noqa
                        ref.append(type(e).__name__)
            return out, ref

        try:
            with self.node:
                got, refused = run(self.node, xs, pos, vel)
            with self.pristine:
                want, _ = run(self.pristine, t.copy(), vals[:, :3].copy(), vals[:, 3:].copy())
        except Exception as e:  # noqa
            ctx.violate("interpolation", {"kind": "unexpected_exception", "exc": type(e).__name__, "op": "direct"}, f"{where}: Interp(xs, ys, {method!r}, {order}) on float arrays raised {type(e).__name__}: {e}")
            return
        ctx.checks += 1
        ctx.probe("interp_class_used_directly")
        if not (np.array_equal(xs, t) and np.array_equal(pos, vals[:, :3]) and np.array_equal(vel, vals[:, 3:])):
            ctx.violate("history-independence", {"kind": "caller_arrays_modified", "size": "large"}, f"{where}: building / using Interp on the caller's arrays changed them (abscissas moved by {float(np.max(np.abs(xs - t))):.3e})")
            return
        if set(refused) != {"refused"}:
            ctx.violate("refused-outside", {"kind": "extrapolated", "method": method, "where": "direct", "after": "-", "short": False}, f"{where}: Interp queried one unit outside its abscissas: {refused}")
            return
        for k_, ((gp, gv), (wp, wv)) in enumerate(zip(got, want)):
            if gp.tobytes() != wp.tobytes() or gv.tobytes() != wv.tobytes():
                ctx.violate("history-independence", {"kind": "second_interpolator_on_the_same_grid_differs", "size": "large"}, f"{where}: query {k_} ({'node' if k_ < 3 else 'between'}): two interpolators built on one abscissa array give {gp} / {gv}, interpolators built on copies of the arrays in a pristine process give {wp} / {wv}")
                return
        for k_ in range(3):
            idx = int(np.argmin(np.abs(t - queries[k_])))
            if method == "lagrange" and (got[k_][0].tobytes() != vals[idx, :3].tobytes() or got[k_][1].tobytes() != vals[idx, 3:].tobytes()):
                ctx.violate("node-exactness", {"kind": "node_not_exact", "method": method, "where": "direct", "after": "-", "short": False, "size": "large"}, f"{where}: Interp at its own abscissa {idx} gives {got[k_][0]}, the ordinate is {vals[idx, :3]}")
                return

    def op_column_scribble(self, op, where):
        """cols = ephem[:, k] (numpy-style column selection, class docstring), then the caller changes what it was given in place."""
        ctx = self.ctx
        with self.node:
            e = self.eph
            before = describe_points(e)
            col = op["col"]
            try:
                arr = e[:, :] if col == "all" else (e[:, 0:3] if col == "0:3" else e[:, int(col)])
                arr *= op["factor"]
            except Exception as ex:  # noqa
                ctx.violate("interpolation", {"kind": "unexpected_exception", "exc": type(ex).__name__, "op": "column"}, f"{where}: ephem[:, {col}] raised {type(ex).__name__}: {ex}")
                return
            after = describe_points(e)
        ctx.checks += 1
        ctx.probe("column_extracted_and_changed")
        ctx.fault("consumer_mutates_item")
        self.since.add("column")
        if before != after:
            ctx.violate("history-independence", {"kind": "points_changed_through_extracted_column", "size": "large"}, f"{where}: changing the array returned by ephem[:, {col}] changed the points of the ephemeris")

    def op_pickle(self, op, where):
        with self.node:
            data = pickle.dumps(self.eph)
        peer = self.mknode("peer")
        with peer:
            data = pickle.dumps(pickle.loads(data))
        with self.node:
            self.eph = pickle.loads(data)
        self.it = None
        self.since.add("pickle")
        self.ctx.fault("msg_to_other_node")

    def op_drop_cache(self, op, where):
        """B1: dropping the lazily built interpolator is transparent."""
        with self.node:
            e = self.eph
            if hasattr(e, "_interp") and hasattr(e, "_reset_interp"):  # private bookkeeping of Ephem: skipped when a refactoring has renamed it
                e._reset_interp()
        self.since.add("cache")
        self.ctx.fault("cache_clear")


def _date(node, d, s, sc):
    """Rebuild a date on another node from its internal (day, seconds) pair.  Every date of this check is UTC without EOP data
    (TAI - UTC = 0 by the 'pass' policy), so the internal pair is also the UTC reading."""
    return node.Date(int(d), float.fromhex(s) if isinstance(s, str) else float(s), scale=sc)


def run_plan(plan, ctx):
    w = World(plan, ctx)
    w.run()
    ctx.nontrivial = bool(getattr(ctx, "nontrivial", False))


def simplify(plan):
    spec = plan["knobs"]["spec"]
    for key, val in (("jitter", 0.0), ("form", "cartesian"), ("frame", "EME2000"), ("table", "kepler")):
        if spec.get(key) != val:
            yield dict(plan, knobs=dict(plan["knobs"], spec=dict(spec, **{key: val})))
