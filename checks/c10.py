"""C10 - event detection is sound, complete w.r.t. sampling, ordered and sharp.

Same scheduler engine as C08 (checks/itersim.py); here the tasks carry listeners
(every listener type, shared and re-used listener objects, caller-owned listener
lists handed to station.visibility) and the hooks below evaluate the event
oracles with independent models of the watched quantities (sim/models/events.py)
on states obtained from the pristine node (DESIGN.md 5.3)."""

import math

import numpy as np

from checks import itersim
from checks import gen_iter
from sim import world
from sim.models import events as M

LEVEL = "exploration"
TIERS = {
    "quick": {"runs": 1200, "max_wall": 170, "chunk": 4},
    "thorough": {"runs": 40000, "max_wall": 1700, "chunk": 8},
}
RULE = (
    "one run = one seeded plan: 1-3 orbits (LEO to Molniya; SGP4, Kepler, J2, KeplerNum, ephemeris), 1-2 stations (with/without mask), a pool "
    "of 2-5 listener objects of every type and 3-9 scheduled operations: iterations with listeners and station.visibility() calls that are "
    "interleaved, cancelled, abandoned and re-run re-using the same listener objects and the same caller-owned listener list. distinct = distinct "
    "hash of the per-run (op kind, propagator kind, call kind, #live iterations, #listeners, fault kind) sequence; non-trivial = at least one event "
    "was emitted and checked and (a listener object was re-used by a later iteration or two iterations were alive together)"
)
STATE_MEASURE = "(propagator kind, call kind, direction/start class, #live iterations, listeners yes/no) plus (listener type, crossing direction) pairs checked"
PROBES = [
    "event_items", "event_checked", "pair_checked_no_crossing", "crossing_with_event", "bisect_sharpness_checked", "label_checked",
    "two_listeners_fired_same_step", "listener_reused_sequentially", "reuse_after_cancel", "two_live_tasks_same_object",
    "visibility_skipped_below_horizon", "visibility_caller_list_reused", "iteration_started_from_an_event_state", "sample_exactly_on_a_zero", "ephem_iterated_from_just_after_a_crossing", "light_model_checked", "condition_false_no_event",
    "interleaved_shared_listener_interference", "same_listener_object_listed_twice", "listeners_relayed_to_another_satellite",
]
REAL_VS_STUB = "real: listeners, Speaker.listen/_bisect, propagators, Ephem, stations, frames, analytic Sun; stub: wall clock (virtual, jumped before TerminatorListener()), EOP storage (simulated disk); oracle: pristine node for states at arbitrary dates + independent numpy models of every watched quantity"
ASSUMPTIONS = [
    "frame conversions used to express a state in the listener's frame are taken from the pristine node (their correctness is C02/C11, not applicable here)",
    "for two iterations consumed at the same time through one listener object (the plan's own doing) nothing is asserted about events",
]
SAMPLED_ONLY = ["umbra/penumbra timing versus the true conical shadow (pure geometry; evaluated at the events the runs produce)"]
TOLERANCES = {"sharpness": "sign change of the model quantity within 3 x _eps_bisect + 2 us of the event", "umbra": "0.01 s", "penumbra": "0.5 s", "dates": "3 us"}


# ------------------------------------------------------------------ generate

LISTENER_TYPES = [
    {"type": "node"},
    {"type": "node", "frame": "EME2000"},
    {"type": "node", "frame": "ITRF"},
    {"type": "apside"},
    {"type": "apside", "frame": "EME2000"},
    {"type": "anomaly", "value": 0.0, "anomaly": "true"},
    {"type": "anomaly", "value": 2.5, "anomaly": "mean"},
    {"type": "anomaly", "value": 4.0, "anomaly": "eccentric"},
    {"type": "anomaly", "value": 1.0, "anomaly": "aol"},
    {"type": "light", "ltype": "umbra"},
    {"type": "light", "ltype": "penumbra"},
    {"type": "light", "ltype": "umbra", "frame": "EME2000"},
    {"type": "light", "ltype": "penumbra", "frame": "TOD"},
    {"type": "terminator"},
    {"type": "signal", "station": 0, "elev": 0.0},
    {"type": "signal", "station": 0, "elev": 0.17},
    {"type": "max", "station": 0},
    {"type": "mask", "station": 0},
    {"type": "radial", "station": 0, "sight": True},
    {"type": "radial", "station": 0, "sight": False},
    {"type": "radial", "frame": "ITRF"},
]


def gen_plan(rng, tier, i):
    real_eop = rng.random() < 0.1
    pool = []
    for _ in range(rng.randint(1, 2)):
        kind = rng.choice(["sgp4", "sgp4", "kepler", "kepler", "j2", "keplernum"])
        spec = gen_iter.gen_orbit_spec(rng, kind, real_eop)
        spec.pop("mans", None)  # maneuvers under the numerical propagator belong to C08's pool (the event models know nothing of them)
        if kind == "sgp4":
            spec["tle"] = rng.choice(["iss", "iss", "molniya"])
        if kind in ("kepler", "j2"):
            spec["frame"] = rng.choice(["EME2000", "EME2000", "TEME"]) if kind == "kepler" else "EME2000"
        pool.append(spec)
    if rng.random() < 0.4:
        src = dict(rng.choice([s for s in pool]))
        if src["kind"] != "keplernum":
            rev = gen_iter.span_scale_ms(src) / 1000.0
            step = max(20, int(rng.uniform(0.005, 0.02) * rev))
            npts = rng.randint(30, 90)
            pool.append({"kind": "ephem", "src": src, "start_off": 0, "dur_s": step * (npts - 1), "step_s": step})
    stations = []
    for k in range(rng.randint(1, 2)):
        st = {"name": f"Sta{k}", "lat": round(rng.uniform(-70, 70), 3), "lon": round(rng.uniform(-180, 180), 3), "alt": round(rng.uniform(0, 2500), 1)}
        if rng.random() < 0.5:
            n = rng.randint(3, 7)
            az = sorted(rng.uniform(0.05, 6.2) for _ in range(n - 1)) + [2 * math.pi]
            st["mask"] = [az, [round(rng.uniform(0.0, 0.35), 3) for _ in range(n)]]
        stations.append(st)
    for sp in pool:
        if sp["kind"] == "ephem" and rng.random() < 0.5:
            sp["in_frame"] = rng.choice(stations)["name"]  # the ephemeris is expressed in the topocentric frame of a station
    listeners = []
    for _ in range(rng.randint(2, 5)):
        ls = dict(rng.choice(LISTENER_TYPES))
        if "station" in ls:
            ls["station"] = rng.randrange(len(stations))
            if ls["type"] == "mask" and not stations[ls["station"]].get("mask"):
                ls = {"type": "signal", "station": ls["station"], "elev": 0.05}
        listeners.append(ls)
    if any(sp.get("in_frame") for sp in pool) and not any(l_["type"] == "light" for l_ in listeners):
        listeners.append({"type": "light", "ltype": rng.choice(["umbra", "penumbra"])})  # shadow events of an ephemeris given in a topocentric frame
    caller_lists = [sorted(rng.sample(range(len(listeners)), rng.randint(0, min(2, len(listeners))))) for _ in range(rng.randint(0, 2))]
    knobs = {
        "pool": pool,
        "listeners": listeners,
        "stations": stations,
        "caller_lists": caller_lists,
        "real_eop": real_eop,
        "ephem_order": rng.choice([8, 8, 6, 10]),
        "eps_bisect_us": rng.choice([1, 1, 10, 1000]),
        "post": rng.choice([None, None, {"kind": rng.choice(["from_event", "sample_on_zero", "ephem_start_after_crossing"]), "kep": gen_iter.rand_kep(rng), "epoch": [rng.randint(55000, 59000), float(rng.randint(0, 86399))], "step_s": rng.choice([60, 120, 300])}]),
    }
    ops = []
    ntasks = 0
    live = []
    task_listeners = {}
    if any(l["type"] == "terminator" for l in listeners) and rng.random() < 0.7:
        # the constructor of TerminatorListener reads the wall clock (Date.now()): jump it first
        ops.append({"op": "clock", "to": rng.choice([[1970, 1, 1, 0, 0, 0], [2100, 6, 1, 12, 0, 0], [2016, 12, 31, 23, 59, 59], [2005, 3, 3, 3, 3, 3]])})

    def new_task(obj=None, reuse_from=None):
        nonlocal ntasks
        i_ = obj if obj is not None else rng.randrange(len(pool))
        spec = pool[i_]
        rev = gen_iter.span_scale_ms(spec)
        if spec["kind"] == "ephem":
            dur = int(spec["dur_s"] * 1000)
            call = {"call": "ephem_iter", "start_ms": None if rng.random() < 0.5 else int(rng.uniform(0, 0.3) * dur / 1000) * 1000, "stop_ms": None if rng.random() < 0.5 else int(rng.uniform(0.5, 1.0) * dur / 1000) * 1000,
                    "stop_abs": True, "step_ms": None if rng.random() < 0.5 else max(5000, int(rng.uniform(0.5, 2.5) * spec["step_s"]) * 1000)}
            if rng.random() < 0.12 and call["start_ms"] is not None and call["stop_ms"] is not None:
                call["start_ms"], call["stop_ms"] = call["stop_ms"], call["start_ms"]  # backward over the ephemeris
            if rng.random() < 0.3:
                # explicit dates over the ephemeris (sorted, or a coarse scan)
                n_ = rng.randint(4, 40)
                ds = sorted({int(rng.uniform(0, dur) / 1000) * 1000 for _ in range(n_)})
                call = {"call": "ephem_iter", "dates": ds}
        else:
            maxn = 25 if spec["kind"] == "keplernum" else 70
            step = max(10000, int(rng.uniform(0.006, 0.05) * rev / 1000) * 1000)
            if spec["kind"] == "keplernum":
                step = rng.choice([spec["step_s"] * 1000, spec["step_s"] * 2000, 90000])
            n = rng.randint(8, maxn)
            start = rng.choice([None, None, int(rng.uniform(-0.5, 1.0) * rev / 1000) * 1000]) if spec["kind"] != "keplernum" else rng.choice([None, None, int(rng.uniform(0, 0.3) * min(rev, 5e6) / 1000) * 1000])
            s0 = start or 0
            span = step * (n - 1) + rng.choice([0, rng.randint(1, step - 1)])
            backward = rng.random() < 0.2
            call = {"call": "iter", "start_ms": start, "stop_ms": s0 - span if backward else s0 + span, "stop_abs": True, "step_ms": step}
            if rng.random() < 0.15 and spec["kind"] != "keplernum":
                ds = sorted({int(rng.uniform(s0, s0 + span) / 1000) * 1000 for _ in range(rng.randint(5, 30))})
                call = {"call": "iter", "dates": ds}
            if spec["kind"] == "keplernum":
                call["check_idx"] = [0, 3, 10**6]
        r = rng.random()
        busy = {j for t_, _ in live for j in task_listeners.get(t_, [])}
        if reuse_from is not None and task_listeners.get(reuse_from):
            call["listeners"] = list(task_listeners[reuse_from])  # re-use of the same listener objects
        else:
            call["listeners"] = sorted(rng.sample(range(len(listeners)), rng.randint(1, min(4, len(listeners)))))
        call = gen_iter.strip_live_listeners(rng, call, busy, p_share=0.08)
        if rng.random() < 0.35:
            # station.visibility()
            call["call"] = "visibility"
            call["station"] = rng.randrange(len(stations))
            call["events"] = rng.choice([True, True, False, "listener", "list"])
            if call["events"] in (True, False) and rng.random() < 0.5:
                call.pop("listeners", None)
            if caller_lists and rng.random() < 0.5:
                call["caller_list"] = rng.randrange(len(caller_lists))
                call.pop("listeners", None)
                if call["events"] in ("listener", "list"):
                    call["events"] = True
            if call["events"] in ("listener", "list") and not call.get("listeners"):
                call["events"] = True
        tid = ntasks
        ntasks += 1
        task_listeners[tid] = call.get("listeners", []) if call.get("caller_list") is None else list(caller_lists[call["caller_list"]])
        if call.get("caller_list") is not None and set(task_listeners[tid]) & busy and rng.random() > 0.08:
            call.pop("caller_list")
            task_listeners[tid] = []
        ops.append({"op": "start", "task": tid, "obj": i_, "call": call})
        live.append((tid, i_))
        return tid

    nops = rng.randint(3, 9) if tier != "thorough" else rng.randint(5, 16)  # thorough: longer histories
    last_done = None
    while len(ops) < nops:
        r = rng.random()
        if not live or (r < 0.25 and len(live) < 2):
            reuse = last_done if (last_done is not None and rng.random() < 0.6) else None
            obj = None
            if reuse is not None and rng.random() < 0.7:
                obj = reuse[1]
            new_task(obj, reuse_from=reuse[0] if reuse else None)
        elif r < 0.5:
            tid, _ = rng.choice(live)
            ops.append({"op": "next", "task": tid, "k": rng.choice([1, 3, 8, 15])})
        elif r < 0.6:
            k = rng.randrange(len(live))
            tid, obj = live.pop(k)
            ops.append({"op": rng.choice(["close", "abandon"]), "task": tid})
            last_done = (tid, obj)
        elif r < 0.9:
            k = rng.randrange(len(live))
            tid, obj = live.pop(k)
            ops.append({"op": "drain", "task": tid})
            last_done = (tid, obj)
        elif r < 0.95:
            ops.append({"op": "cache_clear", "site": rng.choice(["nutation", "interp", "date_cache"])})
        else:
            i_ = rng.randrange(len(pool))
            rev = gen_iter.span_scale_ms(pool[i_])
            if pool[i_]["kind"] not in ("ephem", "keplernum"):
                ops.append({"op": "propagate", "obj": i_, "ms": int(rng.uniform(-1, 2) * rev / 500) * 500})
    for tid, _ in live:
        ops.append({"op": "drain", "task": tid})
    import random

    child = random.Random("c10-child:" + repr(len(ops)) + repr(knobs.get("eps_bisect_us")) + repr([o.get("task") for o in ops]))  # added after the first version: own generator
    if knobs.get("post") and child.random() < 0.3:
        knobs["post"] = dict(knobs["post"], kind="relay")
    for st_ in knobs.get("stations", []):
        if st_.get("mask") and child.random() < 0.35:
            # a mask with a steep wall (a building, a cliff) over part of the azimuths: the satellite may come out from behind it while
            # already descending, or go behind it while still rising
            a0 = child.uniform(0.3, 3.0)
            a1 = a0 + child.uniform(1.0, 3.0)
            wall = child.uniform(0.3, 0.6)
            st_["mask"] = [[a0, a0 + 0.02, a1, a1 + 0.02, 2 * math.pi], [0.02, wall, wall, 0.02, 0.02]]
    for ls_ in knobs.get("listeners", []):
        if ls_.get("type") == "anomaly" and child.random() < 0.3:
            ls_["assign_turns"] = child.choice([-2, -1, 1, 2])  # the value is assigned after construction, whole turns away
    for o in ops:
        if o["op"] == "start" and o["call"].get("listeners") and child.random() < 0.08:
            # the same listener object handed over twice in one list (lists merged by the caller): still one event per crossing
            ls_ = list(o["call"]["listeners"])
            ls_.insert(child.randint(0, len(ls_)), child.choice(ls_))
            o["call"]["listeners"] = ls_
    return {"knobs": knobs, "ops": ops}


def _uniq(objs):
    """Listener objects of a list, each once (the same object listed twice is one listener: one event per crossing)."""
    seen, out = set(), []
    for o in objs:
        if id(o) not in seen:
            seen.add(id(o))
            out.append(o)
    return out


# --------------------------------------------------------------------- hooks


class _Virtual:
    """Stand-in for a listener the library creates itself (station.visibility(events=True))."""

    def __init__(self, cls, **kw):
        self._cls = cls
        self.__dict__.update(kw)


class LInfo:
    """What the oracle needs to know about one listener object."""

    def __init__(self, L, sim):
        self.L = L
        self.cls = getattr(L, "_cls", None) or type(L).__name__
        self.frame = getattr(L, "frame", None)
        self.station = getattr(L, "station", None)
        self.station_idx = None
        if self.station is not None:
            for k, st in enumerate(sim.stations):
                if st is self.station:
                    self.station_idx = k
        if self.cls == "RadialVelocityListener":
            fr = L.frame
            for k, st in enumerate(sim.stations):
                if st is fr:
                    self.station_idx = k
            self.frame = fr.name if hasattr(fr, "name") else fr
        if hasattr(self.frame, "name"):
            self.frame = self.frame.name
        self.key = (self.cls, str(self.frame), self.station_idx, getattr(L, "elev", None), getattr(L, "value", None), getattr(L, "anomaly", None), getattr(L, "type", None), getattr(L, "sight", None))


class Hooks:
    """Event oracles 1-8 of DESIGN.md 5.3 (oracle 9, the fresh-run stream, lives in the engine)."""

    def __init__(self, sim):
        self.sim = sim

    # -- the model quantity g for one listener on a pristine-node state -------------
    def g(self, sim, li, i, ms):
        """(g, condition, extra) for listener `li` on pool object i at epoch+ms."""
        o = sim.oracle
        with o:
            st = sim.ostate(i, ms)
            cls = li.cls
            if cls in ("NodeListener", "ApsideListener", "AnomalyListener"):
                pv = world.vec(st.copy(form="cartesian", frame=li.frame) if li.frame else st.copy(form="cartesian"))
                if cls == "NodeListener":
                    return M.g_node(pv), True, {"rate": M.g_node_rate(pv), "scale": 1e-3}
                if cls == "ApsideListener":
                    return M.g_apside(pv), True, {"scale": 1e-7}
                gval = M.g_anomaly(pv, li.L.value, li.L.anomaly)
                return gval, abs(gval) < 2, {"scale": 1e-10}
            if cls == "LightListener":
                sun = o.mod("beyond.env.solarsystem").get_body("Sun")
                sun_orb = sun.propagate(st.date).copy(frame=li.frame) if li.frame else sun.propagate(st.date).copy()
                sat = world.vec(st.copy(form="cartesian", frame=sun_orb.frame))
                rs = world.vec(sun_orb)[:3]
                kind = li.L.type
                return M.g_light(sat[:3], rs, kind), True, {"margin": M.light_margin(sat[:3], rs, kind), "along": float(-(sat[:3] @ rs) / np.linalg.norm(rs)), "speed": float(np.linalg.norm(sat[3:])), "light": kind}
            if cls == "TerminatorListener":
                sun = o.mod("beyond.env.solarsystem").get_body("Sun")
                sp = world.vec(sun.propagate(st.date).copy(frame=st.frame, form="cartesian"))[:3]
                sat = world.vec(st.copy(form="cartesian"))
                return M.g_terminator(sat[:3], sp), True, {"scale": 1e-12}
            # station based
            if li.station_idx is not None:
                fr = sim.ostations[li.station_idx]
                pv = world.vec(st.copy(form="cartesian", frame=fr))
                t = M.topo(pv)
                if cls == "StationSignalListener":
                    return t["phi"] - li.L.elev, True, {"scale": 1e-11, "rate": t["phi_dot"]}
                if cls == "StationMaskListener":
                    mask = sim.kn["stations"][li.station_idx]["mask"]
                    return t["phi"] - M.mask_value(mask, t["theta"]), t["phi"] > 0, {"scale": 1e-9}
                if cls == "StationMaxListener":
                    return t["phi_dot"], (t["phi"] > 0 and not t["phi_dot"] > 0), {"scale": 1e-13}
                if cls == "RadialVelocityListener":
                    return t["r_dot"], (t["phi"] > 0) if li.L.sight else True, {"scale": 1e-6}
            if cls == "RadialVelocityListener":
                pv = world.vec(st.copy(form="cartesian", frame=li.frame))
                return M.g_apside(pv), True, {"scale": 1e-6}
        raise ValueError(cls)

    # -- engine callbacks ---------------------------------------------------------
    def listeners_of(self, sim, t):
        if not hasattr(t, "linfos"):
            infos = []
            with sim.node:
                if t.call["call"] == "visibility":
                    ev = t.call.get("events")
                    cl = getattr(t, "caller_list", None)
                    if cl is not None:
                        # what the caller put in its list (the plan's spec, not the live list object)
                        for j in sim.kn["caller_lists"][cl]:
                            infos.append(LInfo(sim.listeners[j % len(sim.listeners)], sim))
                        if len({id(x) for x in sim.caller_lists[cl]}) and any(u is not t and getattr(u, "caller_list", None) == cl for u in sim.tasks.values()):
                            sim.ctx.probe("visibility_caller_list_reused")
                    elif ev in (True,) and t.listeners:
                        infos += [LInfo(L, sim) for L in _uniq(t.listeners)]
                    if ev == "listener" and t.listeners:
                        infos.append(LInfo(t.listeners[0], sim))
                    elif ev == "list":
                        infos += [LInfo(L, sim) for L in _uniq(t.listeners)]
                    if ev:
                        sta = sim.stations[t.station]
                        infos.append(LInfo(_Virtual("StationSignalListener", station=sta, elev=0), sim))
                        infos.append(LInfo(_Virtual("StationMaxListener", station=sta), sim))
                        if sim.kn["stations"][t.station].get("mask"):
                            infos.append(LInfo(_Virtual("StationMaskListener", station=sta), sim))
                else:
                    for L in _uniq(t.listeners):
                        infos.append(LInfo(L, sim))
                    if len(_uniq(t.listeners)) < len(t.listeners):
                        sim.ctx.probe("same_listener_object_listed_twice")
            t.linfos = infos
            t.pending = []  # events since the last sample
            t.prev_ms = None
            t.dynamic = {}  # listeners created inside the library (station.visibility(events=True))
        return t.linfos

    def info_for(self, sim, t, L):
        for li in t.linfos:
            if li.L is L:
                return li
        new = LInfo(L, sim)
        for li in t.linfos:
            if li.key == new.key:
                return li
        if new.key not in t.dynamic:
            t.dynamic[new.key] = new
        return t.dynamic[new.key]

    def on_item(self, sim, t, item, is_event):
        ctx = sim.ctx
        if not (t.lidx or t.call["call"] == "visibility"):
            return
        self.listeners_of(sim, t)
        if t.lshared_live:
            return
        ms = t.items[-1][1]
        if is_event:
            with sim.node:
                L = item.event.listener
            li_ = self.info_for(sim, t, L)
            if t.call["call"] == "visibility" and li_.cls not in ("StationSignalListener", "StationMaxListener", "StationMaskListener"):
                # "a station visibility stream consists of exactly the above-horizon sample points plus the AOS/LOS/MAX events":
                # what another listener adds to the computation is only let through above the horizon
                with sim.node:
                    pv = world.vec(item.copy(form="cartesian", frame=sim.stations[t.station]))
                phi = M.topo(pv)["phi"]
                ctx.checks += 1
                ctx.probe("visibility_foreign_event_elevation_checked")
                if phi < -1e-7:
                    ctx.violate(
                        "visibility-stream",
                        sim.fp(t, kind="below_horizon_event_yielded", listener=li_.cls),
                        f"task {t.tid}: visibility() yielded the event '{t.items[-1][2]}' of a {li_.cls} at epoch{ms:+.3f} ms while the satellite is {math.degrees(phi):.4f} deg below the horizon of station {t.station} (only AOS / LOS / MAX belong to the stream there)",
                    )
            t.pending.append((ms, t.items[-1][2], li_, len(t.items) - 1))
            return
        # a sample: close the interval (previous range date, this range date)
        k = t.sample_idx[-1]
        self.close_interval(sim, t, k)

    def close_interval(self, sim, t, k_upto, final=False):
        """Check every interval of consecutive *range* dates up to index k_upto (for visibility the
        below-horizon dates never come out, their states are taken from the pristine node)."""
        ctx = sim.ctx
        start_k = getattr(t, "closed_k", 0)
        exp = t.expected
        for k in range(max(1, start_k + 1), k_upto + 1):
            a, b = exp[k - 1], exp[k]
            evs = [e for e in t.pending if min(a, b) - 3e-3 <= e[0] <= max(a, b) + 3e-3]
            self.check_pair(sim, t, a, b, evs)
            for e in evs:
                t.pending.remove(e)
        t.closed_k = max(start_k, k_upto)
        # events that belong to no interval checked so far and lie before the last closed date: misplaced
        if t.pending and not final:
            lo, hi = exp[0], exp[t.closed_k]
            for e in list(t.pending):
                if not (min(lo, hi) - 3e-3 <= e[0] <= max(lo, hi) + 3e-3):
                    t.pending.remove(e)
                    ctx.violate(
                        "event-between-samples",
                        sim.fp(t, kind="event_outside_sampled_span", listener=e[2].cls),
                        f"task {t.tid}: event '{e[1]}' of {e[2].cls} dated epoch{e[0]:+.3f} ms lies outside the sampled span [{lo}, {hi}] ms",
                    )

    def check_pair(self, sim, t, a, b, evs):
        ctx = sim.ctx
        i = t.obj
        fwd = b >= a
        # order inside the interval: the stream must progress in the direction of the iteration
        seq = [e[0] for e in sorted(evs, key=lambda e: e[3])]
        for x, y in zip(seq, seq[1:]):
            ctx.checks += 1
            if (y < x - 3e-3) if fwd else (y > x + 3e-3):
                ctx.violate(
                    "chronological-order",
                    sim.fp(t, kind="events_out_of_order", backward=not fwd),
                    f"task {t.tid}: two events between the samples at epoch{a:+d} and {b:+d} ms come out dated {x:+.3f} then {y:+.3f} ms, against the direction of the iteration",
                )
        if len({e[2].key for e in evs}) >= 2:
            ctx.probe("two_listeners_fired_same_step")
        first_interval = a == t.expected[0]
        groups = {}
        for li in list(t.linfos):
            groups.setdefault(li.key, [li, 0])[1] += 1
        for li in t.dynamic.values():
            # a listener the model did not expect in this task fired: it can only be spurious
            groups.setdefault(li.key, [li, 0])
        num = sim.kind(i) == "keplernum" or (sim.kind(i) == "ephem" and sim.specs[i]["src"]["kind"] == "keplernum")
        for li, mult in groups.values():
            mine = [e for e in evs if e[2].key == li.key]
            ga, ca, xa = self.g(sim, li, i, a)
            gb, cb, xb = self.g(sim, li, i, b)
            ctx.checks += 1
            if "light" in xa:
                # the model cones are the true ones; the boundary of the library's penumbra differs slightly
                slack = (1.0 if xa["light"] == "umbra" else 10.0 + 2e-4 * max(abs(xa["along"]), abs(xb["along"])))
                clear = abs(xa["margin"]) > slack and abs(xb["margin"]) > slack
            else:
                sc = xa.get("scale", 0.0)
                if num:
                    sc = max(sc, 1e-4 * max(abs(ga), abs(gb)), self.num_scale(sim, i, li))
                clear = abs(ga) > sc and abs(gb) > sc
            crossing = (ga > 0) != (gb > 0)
            if not clear:
                continue
            if mult == 0:
                if mine:
                    ctx.violate(
                        "sound",
                        sim.fp(t, kind="event_of_foreign_listener", listener=li.cls),
                        f"task {t.tid}: event '{mine[0][1]}' at epoch{mine[0][0]:+.3f} ms comes from a {li.cls}{li.key[1:]} that was not given to this iteration",
                    )
                continue
            if crossing and cb:
                if len(mine) == mult:
                    ctx.probe("crossing_with_event")
                    ctx.state(li.cls, "up" if gb > ga else "down")
                    for e_ in mine:
                        self.check_event(sim, t, li, e_, a, b, ga, gb, num)
                elif len(mine) == 0:
                    if t.call["call"] == "visibility" and not (t.call.get("events") and li.cls in ("StationSignalListener", "StationMaxListener", "StationMaskListener")):
                        # visibility() only lets the events of the station listeners through when the
                        # satellite is below the horizon
                        # (so for them only soundness is asserted inside a visibility stream)
                        continue
                    ctx.violate(
                        "complete-wrt-sampling",
                        sim.fp(t, kind="missed_event", listener=li.cls),
                        f"task {t.tid}: the quantity watched by {li.cls}{li.key[1:]} changes sign between the samples at epoch{a:+d} ms ({ga:+.6g}) and epoch{b:+d} ms ({gb:+.6g}) but no event of it was emitted between them",
                    )
                else:
                    ctx.violate(
                        "sound",
                        sim.fp(t, kind="duplicate_event", listener=li.cls),
                        f"task {t.tid}: {len(mine)} events of {li.cls}{li.key[1:]} between the samples at epoch{a:+d} and {b:+d} ms for a single sign change watched by {mult} listener object(s)",
                    )
            else:
                if crossing and not cb:
                    ctx.probe("condition_false_no_event")
                else:
                    ctx.probe("pair_checked_no_crossing")
                if mine:
                    ctx.violate(
                        "sound",
                        sim.fp(t, kind="spurious_event", listener=li.cls),
                        f"task {t.tid}: event '{mine[0][1]}' of {li.cls}{li.key[1:]} at epoch{mine[0][0]:+.3f} ms but its quantity does not change sign between the samples at epoch{a:+d} ms ({ga:+.6g}) and epoch{b:+d} ms ({gb:+.6g})"
                        + ("" if cb else " under the listener's own visibility condition"),
                    )

    def elev(self, sim, t, ms):
        with sim.oracle:
            st = sim.ostate(t.obj, ms)
            pv = world.vec(st.copy(form="cartesian", frame=sim.ostations[t.station]))
        return M.topo(pv)["phi"]

    def num_scale(self, sim, i, li):
        spec = sim.specs[i] if sim.kind(i) == "keplernum" else sim.specs[i]["src"]
        tp, tv = itersim.num_tol(spec)
        cls = li.cls
        if cls == "NodeListener":
            return tp
        if cls in ("ApsideListener", "RadialVelocityListener"):
            return tv
        if cls == "StationMaxListener":
            return tv / 1e5
        return tp / 1e5  # angles: metres over a (short) slant range

    def check_event(self, sim, t, li, e, a, b, ga, gb, num=False):
        ctx = sim.ctx
        ms, label, _, _ = e
        i = t.obj
        ctx.probe("event_checked")
        # between
        if not (min(a, b) - 3e-3 <= ms <= max(a, b) + 3e-3):
            ctx.violate("event-between-samples", sim.fp(t, kind="event_not_between", listener=li.cls), f"task {t.tid}: event '{label}' at epoch{ms:+.3f} ms is not between its samples {a} and {b} ms")
        if num:
            return self.check_label(sim, t, li, e, a, b, ga, gb)
        # sharp: the model quantity changes sign within delta of the event
        eps_ms = sim.kn.get("eps_bisect_us", 1) / 1000.0
        delta = 3 * eps_ms + 0.002
        if li.cls == "LightListener":
            delta = 10.0 if li.L.type == "umbra" else 500.0
            ctx.probe("light_model_checked")
        lo, hi = ms - delta, ms + delta
        lo = max(lo, min(a, b))
        hi = min(hi, max(a, b))
        if li.cls == "LightListener":
            # tolerance in time, as stated: evaluate on a millisecond grid
            lo, hi = round(lo), round(hi)
        g1, _, x1 = self.g(sim, li, i, lo)
        g2, _, x2 = self.g(sim, li, i, hi)
        ctx.checks += 1
        ctx.probe("bisect_sharpness_checked")
        # numerical floor of the watched quantity (double precision through the frame conversions) and
        # the microsecond rounding of the dates at which the model is evaluated
        floor = {"NodeListener": 1e-5, "ApsideListener": 1e-8, "RadialVelocityListener": 1e-8, "AnomalyListener": 1e-11, "StationSignalListener": 1e-11,
                 "StationMaskListener": 1e-11, "StationMaxListener": 1e-11, "TerminatorListener": 1e-13}.get(li.cls, 0.0)
        if li.station_idx is not None or str(li.frame) in ("ITRF", "PEF", "TIRF", "WGS84"):
            # Earth-fixed / topocentric quantities go through a Julian date held in a double (resolution ~40 us,
            # i.e. ~3e-9 rad of Earth rotation): the library's own quantity is a staircase of that height
            floor = {"NodeListener": 0.1, "ApsideListener": 1e-5, "RadialVelocityListener": 1e-5, "AnomalyListener": 1e-8, "StationSignalListener": 8e-9,
                     "StationMaskListener": 8e-9, "StationMaxListener": 2e-11}.get(li.cls, floor)
        slope = abs(g2 - g1) / max(hi - lo, 1e-9)  # per ms
        slack = floor + slope * 0.0015
        if li.cls != "LightListener" and min(abs(g1), abs(g2)) <= slack:
            return self.check_label(sim, t, li, e, a, b, ga, gb)
        if li.cls != "LightListener" and (g1 > 0) == (g2 > 0):
            # Earth-fixed quantities are computed through a Julian date held in a double (resolution ~40 us):
            # the watched quantity is a fine staircase and may cross zero more than once near the event;
            # look for a sign change anywhere in the window, not only between its ends
            for off in (-1.5 * eps_ms - 0.001, 0.0, 1.5 * eps_ms + 0.001, -delta / 2, delta / 2):
                x = ms + off
                if lo <= x <= hi:
                    gx = self.g(sim, li, i, x)[0]
                    if (gx > 0) != (g1 > 0) or abs(gx) <= slack:
                        return self.check_label(sim, t, li, e, a, b, ga, gb)
        if (g1 > 0) == (g2 > 0) and g1 != 0 and g2 != 0:
            ctx.violate(
                "sharp",
                sim.fp(t, kind="event_not_at_crossing", listener=li.cls, light=getattr(li.L, "type", None) if li.cls == "LightListener" else None),
                f"task {t.tid}: event '{label}' of {li.cls}{li.key[1:]} at epoch{ms:+.3f} ms: the watched quantity does not change sign within +-{delta} ms of it ({g1:+.6g} at {lo:+.3f}, {g2:+.6g} at {hi:+.3f})",
            )
        self.check_label(sim, t, li, e, a, b, ga, gb)

    def check_label(self, sim, t, li, e, a, b, ga, gb):
        ctx = sim.ctx
        ms, label, _, _ = e
        # direction of the crossing in physical time
        up_t = (gb > ga) if b >= a else (ga > gb)
        exp_label = None
        cls = li.cls
        if cls == "NodeListener":
            exp_label = "Asc Node" if up_t else "Desc Node"
        elif cls == "StationSignalListener":
            exp_label = "AOS" if up_t else "LOS"
        elif cls == "LightListener":
            nm = "Umbra" if li.L.type == "umbra" else "Penumbra"
            exp_label = f"{nm} exit" if gb > ga else f"{nm} entry"  # relative to the direction of the iteration
        elif cls == "ApsideListener" and b >= a:
            exp_label = "Periapsis" if up_t else "Apoapsis"
        elif cls == "StationMaskListener" and b >= a:
            exp_label = "AOS" if up_t else "LOS"
        elif cls == "TerminatorListener":
            exp_label = None  # 'Night/Day Terminator' depends on the convention of the auxiliary Sun frame; checked through oracle 9 only
        elif cls == "StationMaxListener":
            exp_label = "MAX"
        if exp_label is not None:
            ctx.checks += 1
            ctx.probe("label_checked")
            if label != exp_label:
                ctx.violate(
                    "label-matches-direction",
                    sim.fp(t, kind="wrong_label", listener=cls, backward=b < a),
                    f"task {t.tid}: event of {cls}{li.key[1:]} at epoch{ms:+.3f} ms is labelled '{label}', the watched quantity goes {'up' if up_t else 'down'} in time there ({ga:+.6g} -> {gb:+.6g} along the iteration): expected '{exp_label}'",
                )

    def task_end(self, sim, t):
        ctx = sim.ctx
        if not hasattr(t, "linfos") or t.lshared_live:
            return
        if t.state == "done" and not t.raises_after:
            if t.filtering:
                self.close_interval(sim, t, len(t.expected) - 1, final=True)
            # visibility: skipped dates are below the horizon, yielded ones are not
        if t.filtering and t.state in ("done", "closed", "abandoned"):
            for k in t.skipped:
                with sim.oracle:
                    st = sim.ostate(t.obj, t.expected[k])
                    pv = world.vec(st.copy(form="cartesian", frame=sim.ostations[t.station]))
                phi = M.topo(pv)["phi"]
                ctx.checks += 1
                ctx.probe("visibility_skipped_below_horizon")
                if phi > 1e-9:
                    ctx.violate(
                        "visibility-stream",
                        sim.fp(t, kind="above_horizon_sample_missing"),
                        f"task {t.tid}: the range date epoch{t.expected[k]:+d} ms has elevation {math.degrees(phi):.4f} deg above the horizon of station {t.station} but was not yielded by visibility()",
                    )
            for k in t.sample_idx:
                with sim.oracle:
                    st = sim.ostate(t.obj, t.expected[k])
                    pv = world.vec(st.copy(form="cartesian", frame=sim.ostations[t.station]))
                phi = M.topo(pv)["phi"]
                ctx.checks += 1
                if phi < -1e-9:
                    ctx.violate(
                        "visibility-stream",
                        sim.fp(t, kind="below_horizon_sample_yielded"),
                        f"task {t.tid}: visibility() yielded the sample at epoch{t.expected[k]:+d} ms whose elevation is {math.degrees(phi):.4f} deg (below the horizon)",
                    )


def post_scenarios(sim, plan, ctx):
    """Two short scripted histories on fresh objects of the run's node (after the scheduled operations):
    (C is described at its branch.)
    A. an iteration started *from an event state* (what find_event / a search loop hands back) with the same listener: the samples
       of the new iteration are samples, not events;
    B. an orbit given exactly on a zero of the watched quantity (at its ascending node) iterated from its own epoch: the crossing
       is reported once, at the epoch, not a step later."""
    post = plan["knobs"].get("post")
    if not post:
        return
    n = sim.node
    with n:
        L = n.mod("beyond.propagators.listeners")
        Kepler = n.mod("beyond.propagators.kepler").Kepler
        td = n.timedelta
        date = world.mk_date(n, post["epoch"])
        kep = list(post["kep"])
        mu = 3.986004418e14
        period = 2 * math.pi * math.sqrt(kep[0] ** 3 / mu)
        step = post["step_s"]
        if post["kind"] == "from_event":
            orb = n.Orbit(kep, date, "keplerian", "EME2000", Kepler())
            lis = L.NodeListener()
            ev = None
            for p in orb.iter(stop=td(seconds=1.2 * period), step=td(seconds=step), listeners=lis):
                if p.event is not None:
                    ev = p
                    break
            if ev is None:
                return
            ctx.fault("iter_cancel")
            ctx.probe("iteration_started_from_an_event_state")
            k = 0
            for p in ev.iter(stop=td(seconds=4 * step), step=td(seconds=step), listeners=lis):
                off = (p.date - ev.date).total_seconds()
                on_grid = abs(off - round(off / step) * step) < 1e-5
                if on_grid and round(off / step) >= 1:
                    ctx.checks += 1
                    k += 1
                    if p.event is not None:
                        ctx.violate(
                            "sound",
                            {"kind": "sample_flagged_as_event", "scenario": "from_event"},
                            f"post-scenario A: iterating from the state of a '{ev.event}' event with the same listener, the plain sample at +{off:.1f} s carries the event '{p.event}'",
                        )
        elif post["kind"] == "relay":
            # D. the same listener objects watch satellite A over [t0, t1], then satellite B over [t1, t2] (a relay: the second
            #    iteration starts at the date the first one ended on): the second stream is the one fresh listeners give
            kep_b = list(kep)
            kep_b[2] = (kep[2] + 0.6) % 3.0 + 0.05
            kep_b[3] = kep[3] + 1.0
            kep_b[5] = kep[5] + 2.0
            t1 = date + td(seconds=6 * step)

            def stream(ls_):
                a = n.Orbit(kep, date, "keplerian", "EME2000", Kepler())
                b = n.Orbit(kep_b, date, "keplerian", "EME2000", Kepler())
                for _ in a.iter(stop=t1, step=td(seconds=step), listeners=ls_):
                    pass
                return [((p_.date - t1).total_seconds(), str(p_.event) if p_.event is not None else None) for p_ in b.iter(start=t1, stop=td(seconds=1.2 * period), step=td(seconds=step), listeners=ls_)]

            ctx.probe("listeners_relayed_to_another_satellite")
            got = stream([L.NodeListener(), L.ApsideListener()])
            la, lb = L.NodeListener(), L.ApsideListener()
            b2 = n.Orbit(kep_b, date, "keplerian", "EME2000", Kepler())
            ref = [((p_.date - t1).total_seconds(), str(p_.event) if p_.event is not None else None) for p_ in b2.iter(start=t1, stop=td(seconds=1.2 * period), step=td(seconds=step), listeners=[la, lb])]
            ctx.checks += 1
            if got != ref:
                diff = next((k_ for k_ in range(min(len(got), len(ref))) if got[k_] != ref[k_]), min(len(got), len(ref)))
                ctx.violate(
                    "history-independence",
                    {"kind": "stream_differs_from_fresh_run", "scenario": "relay"},
                    f"post-scenario D: listeners that watched another satellite up to the date this iteration starts on give {len(got)} items, fresh listeners {len(ref)}; first difference at item {diff}: {got[diff] if diff < len(got) else None} vs {ref[diff] if diff < len(ref) else None}",
                )
        elif post["kind"] == "ephem_start_after_crossing":
            # C. an ephemeris iterated over its own points (no step) from a point that lies just *after* a crossing, forwards, and
            #    from the point just *before* it, backwards: nothing is reported outside the requested span
            orb = n.Orbit(kep, date, "keplerian", "EME2000", Kepler())
            eph = orb.ephem(start=date, stop=td(seconds=1.3 * period), step=td(seconds=step))
            pts = list(eph)
            zs = [float(np.asarray(p_.copy(form="cartesian"))[2]) for p_ in pts]
            ks = [k_ for k_ in range(1, len(pts) - 2) if (zs[k_] > 0) != (zs[k_ + 1] > 0)]
            if not ks:
                return
            k_ = ks[0]
            lis = L.NodeListener()
            ctx.probe("ephem_iterated_from_just_after_a_crossing")
            for direction, start, stop in (("forward", pts[k_ + 1].date, None), ("backward", pts[k_].date, pts[0].date)):
                kw = {"start": start, "listeners": lis}
                if stop is not None:
                    kw["stop"] = stop
                for p_ in eph.iter(**kw):
                    off = (p_.date - start).total_seconds()
                    ctx.checks += 1
                    if (off < -1e-3) if direction == "forward" else (off > 1e-3):
                        ctx.violate(
                            "event-between-samples",
                            {"kind": "event_outside_sampled_span", "scenario": "ephem_start_after_crossing", "direction": direction},
                            f"post-scenario C: ephemeris iterated {direction} over its own points from {start}: an item ({'event ' + str(p_.event) if p_.event else 'sample'}) is dated {off:+.3f} s from the start, outside the requested span",
                        )
        else:
            kep[4] = 0.0  # argument of perigee
            kep[5] = 0.0  # true anomaly: the orbit is given exactly at its ascending node
            orb = n.Orbit(kep, date, "keplerian", "EME2000", Kepler())
            lis = L.NodeListener()
            ctx.probe("sample_exactly_on_a_zero")
            evs = []
            for p in orb.iter(stop=td(seconds=0.4 * period), step=td(seconds=step), listeners=lis):
                if p.event is not None:
                    evs.append((p.date - date).total_seconds())
            ctx.checks += 1
            if len(evs) > 1 or any(e > 0.5 * step for e in evs):
                ctx.violate(
                    "event-between-samples",
                    {"kind": "crossing_on_a_sample_misreported", "scenario": "sample_on_zero", "n": len(evs)},
                    f"post-scenario B: an orbit given at its ascending node, iterated from its epoch over 0.4 revolution with step {step} s: node events at {['%.6f s' % e for e in evs]} after the epoch (expected at most one, at the epoch)",
                )


def run_plan(plan, ctx):
    sim = itersim.Sim(plan, ctx, "C10")
    sim.hooks = Hooks(sim)
    sim.run()
    if ctx.violation is None:
        post_scenarios(sim, plan, ctx)
    ctx.nontrivial = bool(ctx.probes.get("event_checked")) and any(ctx.probes.get(p) for p in ("listener_reused_sequentially", "reuse_after_cancel", "two_live_tasks_same_object", "visibility_caller_list_reused"))


def simplify(plan):
    yield from gen_iter.simplify_iter(plan)
    kn = plan["knobs"]
    if kn.get("caller_lists"):
        if not any(o["op"] == "start" and o["call"].get("caller_list") is not None for o in plan["ops"]):
            yield dict(plan, knobs=dict(kn, caller_lists=[]))
