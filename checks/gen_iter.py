"""Seeded plan generator for the iteration scheduler (C08 and C10)."""

import math

MU = 3.986004418e14


def period_s(a):
    return 2 * math.pi * math.sqrt(a**3 / MU)


def rand_kep(rng, leo=False):
    a = rng.uniform(6.9e6, 9.0e6) if leo else rng.choice([rng.uniform(6.9e6, 9e6), rng.uniform(9e6, 2.7e7), rng.uniform(2.6e7, 4.3e7)])
    emax = min(0.72, 1 - 6.65e6 / a)
    e = rng.uniform(0.0005, max(0.001, emax))
    if rng.random() < 0.3:
        e = rng.uniform(0.0005, 0.01)
    return [a, e, rng.uniform(0.05, math.pi - 0.05), rng.uniform(0, 2 * math.pi), rng.uniform(0, 2 * math.pi), rng.uniform(0, 2 * math.pi)]


def rand_epoch(rng, real_eop=False):
    d = rng.randint(51600, 57700) if real_eop else rng.randint(55000, 59500)
    s = rng.choice([0.0, 43200.0, float(rng.randint(0, 86399)), rng.randint(0, 86399) + rng.randint(0, 999) / 1000.0])
    return [d, s]


def gen_orbit_spec(rng, kind, real_eop=False):
    if kind == "sgp4":
        return {"kind": "sgp4", "tle": rng.choice(["iss", "iss", "molniya", "gps", "geo"])}
    if kind in ("kepler", "j2", "none"):
        return {"kind": kind, "kep": rand_kep(rng), "frame": rng.choice(["EME2000", "EME2000", "TEME", "GCRF", "MOD"]) if kind != "j2" else "EME2000", "epoch": rand_epoch(rng, real_eop), "scale": "TAI" if real_eop else rng.choice(["UTC", "UTC", "TT", "TAI"])}
    if kind == "keplernum":
        spec = {
            "kind": "keplernum",
            "kep": rand_kep(rng, leo=True),
            "frame": "EME2000",
            "epoch": rand_epoch(rng, real_eop),
            "scale": "TAI" if real_eop else "UTC",  # with real IERS tables the harness' own date arithmetic must not cross a leap second
            "step_s": rng.choice([30, 60, 60, 120]),
            "method": rng.choice(["rk4", "rk4", "dopri54", "rkf54"]),
        }
        return add_num_mans(spec)
    if kind == "cw":
        sma = rng.choice([rng.uniform(6.8e6, 7.5e6), 4.2164e7])
        spec = {
            "kind": "cw",
            "sma": sma,
            "orient": rng.choice(["QSW", "QSW", "TNW"]),
            "rel": [rng.uniform(-3e3, 3e3), rng.uniform(-8e3, 8e3), rng.uniform(-1e3, 1e3), rng.uniform(-2, 2), rng.uniform(-4, 4), rng.uniform(-1, 1)],
            "epoch": rand_epoch(rng),
            "scale": "TAI" if real_eop else "UTC",  # with real IERS tables the harness' own date arithmetic must not cross a leap second
            "mans": [],
        }
        t = 0.0
        for k_ in range(rng.choice([0, 0, 1, 2])):
            t += rng.uniform(60, 2500)
            if k_ == 0 and rng.random() < 0.25:
                t = 0.0  # a maneuver dated exactly at the epoch
            if rng.random() < 0.6:
                spec["mans"].append({"type": "imp", "off_s": round(t, 0), "dv": [rng.uniform(-1, 1), rng.uniform(-1, 1), rng.uniform(-0.3, 0.3)]})
            else:
                dur = round(rng.uniform(30, 600), 0)
                spec["mans"].append({"type": "cont", "off_s": round(t, 0), "dur_s": dur, "dv": [rng.uniform(-1, 1), rng.uniform(-1, 1), 0.0]})
                t += dur
        if len(spec["mans"]) >= 2:
            import random

            r2 = random.Random("cwmans:" + repr(spec["mans"]))
            if r2.random() < 0.35:
                spec["mans"] = spec["mans"][::-1]  # the caller's list is not in chronological order (it stays the caller's list, as given)
        return spec
    raise ValueError(kind)


def add_num_mans(spec):
    """Maneuvers carried by an orbit under the numerical propagator (impulsive in inertial / QSW / TNW axes, continuous, keplerian increments),
    dated inside the spans the calls use, on and off the integration grid.  Drawn from a generator of their own (seeded by the spec), so that
    the plans generated before this extension are unchanged apart from the added field."""
    import random

    r = random.Random("mans:" + repr(sorted(spec.items())))
    if r.random() < 0.45:
        return spec
    mans = []
    t = 0.0
    for _ in range(r.choice([1, 1, 2, 3])):
        t += r.choice([r.uniform(20, 1500), float(spec["step_s"] * r.randint(1, 20)), r.uniform(1, 59)])
        q = r.random()
        if q < 0.5:
            mans.append({"type": "imp", "off_s": round(t, r.choice([0, 0, 3])), "dv": [r.uniform(-3, 3), r.uniform(-3, 3), r.uniform(-1, 1)], "frame": r.choice([None, "QSW", "TNW", "TNW"])})
        elif q < 0.8:
            dur = round(r.uniform(20, 400), 0)
            mans.append({"type": "cont", "off_s": round(t, 0), "dur_s": dur, "dv": [r.uniform(-2, 2), r.uniform(-2, 2), r.uniform(-0.5, 0.5)], "frame": r.choice([None, "QSW", "TNW"])})
            t += dur
        else:
            which = r.choice(["a", "i", "O", "ai", "aiO"])  # at least one non-zero increment (all-zero increments are outside C17's quantifier: 0 / 0)
            mans.append({"type": "kep", "off_s": round(t, 0), "da": r.choice([r.uniform(-5e3, 5e3), r.uniform(-20, 20), r.uniform(-2, 2)]) if "a" in which else 0.0, "di": r.uniform(-1e-3, 1e-3) if "i" in which else 0.0, "dOmega": r.uniform(-1e-3, 1e-3) if "O" in which else 0.0})
    spec["mans"] = mans
    return spec


def span_scale_ms(spec):
    """A natural time scale (one revolution) for the object, in ms."""
    k = spec["kind"]
    if k == "sgp4":
        return {"iss": 5560e3, "molniya": 27110e3, "gps": 43080e3, "geo": 86160e3}[spec["tle"]]
    if k == "cw":
        return period_s(spec["sma"]) * 1e3
    if k == "ephem":
        return spec["dur_s"] * 1e3
    return period_s(spec["kep"][0]) * 1e3


def gen_orbit_call(rng, spec, listeners_n=0, p_listen=0.35):
    k = spec["kind"]
    rev = span_scale_ms(spec)
    maxn = 14 if k == "keplernum" else 40
    call = {"call": rng.choice(["iter", "iter", "ephemeris"])}
    if k == "keplernum":
        rev = min(rev, 6000e3)
    mode = rng.random()
    if mode < 0.62:
        # start / stop / step
        r = rng.random()
        if r < 0.35:
            start = None
        elif r < 0.55:
            start = -int(rng.uniform(0.02, 1.5 if k != "keplernum" else 0.5) * rev)
        elif r < 0.6:
            start = 0
        else:
            start = int(rng.uniform(0.02, 2.0 if k != "keplernum" else 0.6) * rev)
        s0 = start or 0
        n = rng.randint(1, maxn)
        step = max(1000, int(rng.uniform(0.002, 0.12) * rev / 500) * 500)
        if k == "keplernum":
            step = rng.choice([spec["step_s"] * 1000, spec["step_s"] * 500, int(rng.uniform(5, 300)) * 1000])
        span = step * (n - 1) + rng.choice([0, 0, rng.randint(1, max(1, step - 1))])  # step often does not divide the span
        if rng.random() < 0.12:
            span = rng.choice([0, rng.randint(1, max(1, step // 2))])  # span shorter than one step / zero
        backward = rng.random() < 0.33
        stop_abs = rng.random() < 0.6
        if backward:
            stop = s0 - span
        else:
            stop = s0 + span
        call.update({"start_ms": start, "stop_ms": stop if stop_abs else stop - s0, "stop_abs": stop_abs, "step_ms": step})
        if backward and span > 0 and rng.random() < 0.4:
            call["step_ms"] = -step  # explicit, coherent negative step
        if k == "keplernum" and start is None and rng.random() < 0.3:
            call["step_ms"] = None if False else call["step_ms"]
    elif mode < 0.85:
        n = rng.randint(1, min(12, maxn))
        lo, hi = (-1.2 * rev, 2.0 * rev) if k != "keplernum" else (-0.3 * rev, 0.6 * rev)
        ds = sorted(int(rng.uniform(lo, hi) / 500) * 500 for _ in range(n))
        if rng.random() < 0.2:
            rng.shuffle(ds)
        if rng.random() < 0.2:
            ds = sorted(ds, reverse=True)
        call["dates"] = ds
        if rng.random() < 0.15:
            call["dates_as_gen"] = True
        import random

        r4 = random.Random("dup:" + repr(ds))
        if ds and r4.random() < 0.25:
            # the same date twice in a row (two chained ranges both holding the date where they meet, a there-and-back list)
            j_ = r4.randrange(len(ds))
            ds.insert(j_, ds[j_])
        if k == "keplernum":
            # the numerical propagator documents a date range here
            s = ds[0] if ds else 0
            call.pop("dates")
            call.pop("dates_as_gen", None)
            st = rng.choice([spec["step_s"] * 1000, int(rng.uniform(10, 200)) * 1000])
            call["daterange"] = [min(ds), min(ds) + st * rng.randint(1, maxn - 1), st, rng.random() < 0.6]
    else:
        s = int(rng.uniform(-0.8, 1.2) * rev / 500) * 500 if k != "keplernum" else int(rng.uniform(0, 0.3) * rev / 500) * 500
        st = max(1000, int(rng.uniform(0.003, 0.1) * rev / 500) * 500)
        if k == "keplernum":
            st = rng.choice([spec["step_s"] * 1000, int(rng.uniform(10, 200)) * 1000])
        n = rng.randint(1, maxn - 1)
        e = s + st * n + rng.choice([0, rng.randint(1, st - 1)])
        if rng.random() < 0.3 and k != "keplernum":
            s, e, st = e, s, -st
        call["daterange"] = [s, e, st, rng.random() < 0.6]
    if k == "keplernum":
        call["check_idx"] = sorted({0, rng.randint(0, maxn), rng.randint(0, maxn), 10**6})
    if listeners_n and k != "cw" and rng.random() < p_listen:
        call["listeners"] = sorted(rng.sample(range(listeners_n), rng.randint(1, min(3, listeners_n))))
    return call


def strip_live_listeners(rng, call, busy, p_share=0.12):
    """Two *live* iterations sharing one listener object interfere by construction (nothing can be
    asserted); keep that rare and mostly give a new task listeners that no live task uses."""
    if call.get("listeners") and rng.random() >= p_share:
        keep = [j for j in call["listeners"] if j not in busy]
        if keep:
            call["listeners"] = keep
        else:
            call.pop("listeners")
    return call


def gen_ephem_call(rng, spec, listeners_n=0, p_listen=0.3):
    dur = int(spec["dur_s"] * 1000)
    step0 = int(spec["step_s"] * 1000)
    r = rng.random()
    if r < 0.15:
        return {"call": "for"}
    call = {"call": "ephem_iter"}
    if r < 0.35:
        n = rng.randint(1, 12)
        ds = sorted(int(rng.uniform(0, dur) / 250) * 250 for _ in range(n))
        if rng.random() < 0.25:
            rng.shuffle(ds)
        if rng.random() < 0.1:
            ds.append(dur + rng.randint(1, 60000))  # outside the table: refused
        call["dates"] = ds
    else:
        q = rng.random()
        if q < 0.35:
            start = None
        elif q < 0.85:
            start = int(rng.uniform(0, 0.8) * dur / 250) * 250
        else:
            start = -rng.randint(1, 600000)
            call["strict"] = rng.random() < 0.5
        s0 = start if start is not None else 0
        q = rng.random()
        if q < 0.3:
            stop = None
        elif q < 0.8:
            stop = int(rng.uniform(max(s0, 0), dur) / 250) * 250
        elif q < 0.9:
            stop = dur + rng.randint(1, 600000)
            call.setdefault("strict", rng.random() < 0.5)
        else:
            stop = int(rng.uniform(0, max(1, s0)) / 250) * 250  # before start: backward range over an ephemeris
        stop_abs = True
        if stop is not None and stop >= s0 and start is not None and start >= 0 and rng.random() < 0.3:
            stop_abs = False
            stop = stop - s0
        step = None if rng.random() < 0.35 else max(1000, int(rng.uniform(0.2, 3.0) * step0 / 250) * 250)
        call.update({"start_ms": start, "stop_ms": stop, "stop_abs": stop_abs, "step_ms": step})
    if listeners_n and rng.random() < p_listen and call["call"] != "for":
        call["listeners"] = sorted(rng.sample(range(listeners_n), rng.randint(1, min(3, listeners_n))))
    return call


SIMPLE_LISTENERS = [
    {"type": "node"},
    {"type": "node", "frame": "EME2000"},
    {"type": "apside"},
    {"type": "anomaly", "value": 0.0, "anomaly": "true"},
    {"type": "anomaly", "value": 3.0, "anomaly": "mean"},
    {"type": "anomaly", "value": 1.5, "anomaly": "aol"},
    {"type": "light", "ltype": "umbra"},
    {"type": "light", "ltype": "penumbra"},
]


def gen_iter_plan(rng, mode="C08", tier="quick"):
    real_eop = rng.random() < 0.15
    kinds_w = ["sgp4"] * 4 + ["kepler"] * 3 + ["j2"] * 2 + ["none"] * 1 + ["keplernum"] * 1 + ["cw"] * 1
    pool = []
    n = rng.randint(1, 3)
    for _ in range(n):
        pool.append(gen_orbit_spec(rng, rng.choice(kinds_w), real_eop))
    hint = False
    # a pair sharing one propagator instance
    if rng.random() < 0.22:
        cands = [i for i, s in enumerate(pool) if s["kind"] in ("sgp4", "kepler", "j2", "none")]
        if cands:
            j = rng.choice(cands)
            s2 = gen_orbit_spec(rng, pool[j]["kind"], real_eop)
            s2["share"] = j
            pool.append(s2)
    # ephemerides made from pool orbits
    for _ in range(rng.choice([0, 1, 1, 2])):
        cands = [s for s in pool if s["kind"] in ("sgp4", "kepler", "j2", "none", "cw") or (s["kind"] == "keplernum" and rng.random() < 0.3)]
        if not cands:
            break
        src = dict(rng.choice(cands))
        src.pop("share", None)
        rev = span_scale_ms(src) / 1000.0
        npts = rng.choice([rng.randint(9, 40), rng.randint(9, 40), rng.randint(2, 7)])  # sometimes shorter than the interpolation order
        step = max(10, int(rng.uniform(0.004, 0.03) * rev))
        if src["kind"] == "keplernum":
            npts = rng.randint(9, 16)
            step = rng.choice([src["step_s"], 2 * src["step_s"], 45])
        pool.append({"kind": "ephem", "src": src, "start_off": rng.choice([0, 0, int(rng.uniform(-0.5, 1.0) * rev)]) if src["kind"] != "keplernum" else 0, "dur_s": step * (npts - 1), "step_s": step})
        if rng.random() < 0.2:
            pool[-1]["interp"] = "linear"  # a linearly interpolated ephemeris (2-point windows: first / last interval logic of its own)
    listeners = []
    if rng.random() < (0.45 if mode == "C08" else 1.0):
        listeners = [dict(rng.choice(SIMPLE_LISTENERS)) for _ in range(rng.randint(1, 3))]
    knobs = {
        "pool": pool,
        "listeners": listeners,
        "stations": [],
        "real_eop": real_eop,
        "ephem_order": rng.choice([8, 8, 8, 4, 6, 10]),
        "eps_bisect_us": rng.choice([1, 1, 10, 1000]),
    }
    ops = []
    ntasks = 0
    live = []
    task_listeners = {}

    def new_task(obj=None):
        nonlocal ntasks
        i = obj if obj is not None else rng.randrange(len(pool))
        spec = pool[i]
        call = gen_ephem_call(rng, spec, len(listeners)) if spec["kind"] == "ephem" else gen_orbit_call(rng, spec, len(listeners))
        busy = {j for t_, _ in live for j in task_listeners.get(t_, [])}
        call = strip_live_listeners(rng, call, busy)
        if not call.get("listeners") and rng.random() < 0.2:
            call["scribble"] = rng.choice(["spherical", "keplerian", "keplerian_mean"]) if spec["kind"] not in ("cw",) and spec.get("src", {}).get("kind") != "cw" else "spherical"
            if rng.random() < 0.5:
                call["scribble_frame"] = rng.choice(["ITRF", "TEME", "MOD"])
        tid = ntasks
        ntasks += 1
        task_listeners[tid] = call.get("listeners", [])
        ops.append({"op": "start", "task": tid, "obj": i, "call": call})
        live.append((tid, i))
        return tid

    nops = rng.randint(4, 11) if tier != "thorough" else rng.randint(6, 22)  # thorough: longer histories
    cancelled_objs = []
    while len(ops) < nops:
        r = rng.random()
        if not live or (r < 0.22 and len(live) < 3):
            # prefer an object already in use (same orbit, shared propagator, same ephemeris)
            obj = None
            if live and rng.random() < 0.6:
                j = rng.choice(live)[1]
                shared = [i for i, s in enumerate(pool) if s.get("share") == j or pool[j].get("share") == i]
                obj = rng.choice([j] + shared)
                hint = True
            elif cancelled_objs and rng.random() < 0.7:
                obj = rng.choice(cancelled_objs)
            new_task(obj)
        elif r < 0.55:
            tid, _ = rng.choice(live)
            ops.append({"op": "next", "task": tid, "k": rng.choice([1, 1, 2, 3, 5])})
        elif r < 0.70:
            i = rng.randrange(len(pool))
            if live and rng.random() < 0.6:
                j = rng.choice(live)[1]
                shared = [x for x, s in enumerate(pool) if s.get("share") == j or pool[j].get("share") == x]
                i = rng.choice([j] + shared)
            rev = span_scale_ms(pool[i])
            if pool[i]["kind"] == "sgp4" and rng.random() < 0.3:
                ms = int(rng.uniform(-30, 30) * 86400e3)
            elif pool[i]["kind"] == "keplernum":
                ms = int(rng.uniform(-0.4, 0.8) * min(rev, 6000e3) / 500) * 500
            elif pool[i]["kind"] == "ephem":
                ms = int(rng.uniform(0, 1) * rev / 250) * 250
            else:
                ms = int(rng.uniform(-2, 3) * rev / 500) * 500
            ops.append({"op": "propagate", "obj": i, "ms": ms, "as_td": rng.random() < 0.2})
        elif r < 0.78:
            tid, obj = live.pop(rng.randrange(len(live)))
            ops.append({"op": rng.choice(["close", "abandon"]), "task": tid})
            cancelled_objs.append(obj)
        elif r < 0.90:
            tid, _ = live.pop(rng.randrange(len(live)))
            ops.append({"op": "drain", "task": tid})
        elif r < 0.95:
            ops.append({"op": "cache_clear", "site": rng.choice(["nutation", "interp", "date_cache"])})
        else:
            i = rng.randrange(len(pool))
            spec = pool[i]
            call = gen_ephem_call(rng, spec) if spec["kind"] == "ephem" else gen_orbit_call(rng, spec)
            if call["call"] != "for" and call.get("daterange") is None and not call.get("dates_as_gen"):
                call.pop("listeners", None)
                ops.append({"op": "ephem", "obj": i, "call": call})
    for tid, _ in live:
        if rng.random() < 0.8:
            ops.append({"op": "drain", "task": tid})
    share_ranges(ops, pool)
    if mode == "C08":
        import random

        r3 = random.Random("fork:" + repr(len(ops)) + repr([sp.get("kind") for sp in pool]))
        for o in ops:
            if o["op"] == "start" and pool[o["obj"] % len(pool)]["kind"] in ("kepler", "j2", "keplernum") and r3.random() < 0.35:
                o["call"]["fork_items"] = True  # the consumer goes on from the points it is handed (they are orbits with propagators)
    if mode == "C08":
        ops[:] = insert_set_order(ops, pool)
    knobs["nontrivial_hint"] = hint
    return {"knobs": knobs, "ops": ops}


def share_ranges(ops, pool):
    """Post-processing (own generator, the draws of the plan are untouched): some iterations of one orbit are handed the very same
    DateRange object (dates=) as an earlier iteration of that orbit."""
    import random

    r = random.Random("share:" + repr([(o.get("task"), o.get("obj")) for o in ops if o["op"] == "start"]) + repr(len(ops)))
    first = {}
    for o in ops:
        if o["op"] != "start" or pool[o["obj"] % len(pool)]["kind"] == "ephem":
            continue
        c = o["call"]
        j = o["obj"] % len(pool)
        if j in first and r.random() < 0.45 and c["call"] in ("iter", "ephemeris"):
            src = first[j]
            for k_ in ("start_ms", "stop_ms", "stop_abs", "step_ms", "dates", "dates_as_gen", "daterange"):
                c.pop(k_, None)
            c["daterange"] = list(src["daterange"])
            c["share_range"] = j
            src["share_range"] = j
        elif c.get("daterange") is not None and j not in first:
            first[j] = c


def simplify_iter(plan):
    """Property-specific shrinking: drop listeners, shrink next counts, remove pool sharing."""
    ops = plan["ops"]
    for idx, o in enumerate(ops):
        if o["op"] == "start" and o["call"].get("listeners"):
            c = dict(o["call"])
            c.pop("listeners")
            yield dict(plan, ops=ops[:idx] + [dict(o, call=c)] + ops[idx + 1 :])
        if o["op"] == "next" and o.get("k", 1) > 1:
            yield dict(plan, ops=ops[:idx] + [dict(o, k=1)] + ops[idx + 1 :])
    kn = plan["knobs"]
    if kn.get("real_eop"):
        yield dict(plan, knobs=dict(kn, real_eop=False))
    if kn.get("listeners"):
        used = {j for o in ops if o["op"] == "start" for j in o["call"].get("listeners", [])}
        if not used:
            yield dict(plan, knobs=dict(kn, listeners=[]))


def insert_set_order(ops, pool):
    """Post-processing (own generator): the order of a Lagrange-interpolated ephemeris of the pool is changed somewhere in the history,
    and the ephemeris is used again right afterwards."""
    import random

    eph = [i for i, sp in enumerate(pool) if sp["kind"] == "ephem" and sp.get("interp") != "linear"]
    if not eph:
        return ops
    r = random.Random("order:" + repr(len(ops)) + repr([sp.get("dur_s") for sp in pool]))
    if r.random() < 0.55:
        return ops
    i = r.choice(eph)
    npts = int(pool[i]["dur_s"] // pool[i]["step_s"]) + 1
    order = r.choice([2, 3, 4, 5, 6, 7, 9, 10, 12, max(2, npts), max(2, npts - 1)])
    at = r.randint(1, len(ops))
    dur = int(pool[i]["dur_s"] * 1000)
    extra = [{"op": "set_order", "obj": i, "order": order}, {"op": "propagate", "obj": i, "ms": int(r.uniform(0, 1) * dur / 250) * 250, "as_td": False}]
    return ops[:at] + extra + ops[at:]
