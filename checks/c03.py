"""C03 - time scales: one instant, exact offsets, lawful date arithmetic.

One node life after another on one simulated disk holding the real IERS tables (possibly
faulted): seeded sequences of date constructions / conversions / arithmetic / range iterations,
with the EOP store faulted once per life (F5), the missing-value policy and the database
selection flipped between operations (F6), the wall clock jumped (F4) and the process restarted
(F8, with or without the file having arrived meanwhile).  Oracle: an independent model of the
time scales and of the IERS files (sim/models/timescales.py), applied to the same - possibly
faulted - bytes (DESIGN.md 5.6)."""

import logging
from datetime import datetime, timedelta

from sim.node import Node, SimDisk, load_real_eop
from sim.models import timescales as ts
from sim.core import fhex

LEVEL = "exploration"
TIERS = {
    "quick": {"runs": 1600, "max_wall": 170, "chunk": 10},
    "thorough": {"runs": 100000, "max_wall": 1700, "chunk": 20},
}
RULE = (
    "one run = 1..3 node lives on one simulated disk with the real IERS tables 1973-2017, each life with one configuration (missing policy, database "
    "name: file-backed / zero / flaky / raising / unknown) and at most one store fault (missing file, EACCES, EIO, empty, torn at or inside a line, garbled "
    "row, late arrival), running 6..14 seeded operations: Date construction through every constructor form in every scale (day boundaries, table ends, "
    "uncovered years emphasised), conversion to every other scale, same-instant twins under another label, timedelta arithmetic, comparisons / hashing, "
    "Date.now under a jumping virtual clock, date ranges consumed fully / partially-then-again / interleaved, policy and database flips, restarts. "
    "distinct = distinct (policy, db kind, store fault kind, operation kinds, coverage classes met) signatures; non-trivial = a fault, a flip or a restart "
    "took place and at least one lookup was judged after it"
)
STATE_MEASURE = "(policy, db kind, store fault kind, table-coverage class of the date, scale pair)"
PROBES = [
    "lookup_tabulated", "lookup_fallback_pass", "lookup_fallback_warning_logged", "lookup_fallback_error_raised", "invalid_policy_config_error", "eop_exception_cached",
    "healed_after_restart", "late_arrival_without_restart", "day_boundary_date", "table_edge_date", "uncovered_date", "twin_equal_and_hash_checked", "range_negative_step",
    "range_abandoned_then_reiterated", "range_interleaved", "membership_other_scale_near_end", "now_under_clock_jump", "policy_flipped", "db_flipped", "flaky_day_hit", "sub_microsecond_reading_before_tai_midnight", "range_attributes_reassigned", "date_cloned", "explicit_lookup_in_other_database", "result_of_addition_converted", "addition_within_the_day",
]
REAL_VS_STUB = "real: beyond.dates.date (Date, DateRange, Timescale), beyond.dates.eop (readers, SimpleEopDatabase, EopDb, policies), config; stub: Path seen by eop.py (simulated disk with faults), datetime seen by date.py (virtual wall clock), extra registered databases (zero / flaky / raising); model: sim/models/timescales.py"
ASSUMPTIONS = [
    "UT1-UTC 'as tabulated for that day': within 70 s of a UTC midnight the value of either neighbouring day is accepted (the date's own scale and UTC disagree on the day there)",
    "instants within 2 minutes (+ the scale offset) of a leap second are not generated (documented: leap seconds are not handled)",
    "a row torn in the middle of a field is not judged (the file is then malformed in a way a fixed-column reader cannot notice)",
    "UT1 round trip: each of the two conversions may take the UT1-UTC of a neighbouring day, so the bound is twice the largest daily change of the shipped tables (4.03 ms) + rounding",
]
SAMPLED_ONLY = [
    "(d+t)-d=t, associativity, ordering/equality/hash consistency and the range laws have no fault or schedule in them: they are evaluated as per-step invariants on the dates the runs create (sampled, not decided)",
]
TOLERANCES = {"ut1_tdb_instant_s": 1e-6, "round_trip_s": 2e-6, "ut1_round_trip_s": 8.5e-3, "tdb_series_s": 2e-6}

SCALES = ["UTC", "TAI", "TT", "GPS", "UT1", "TDB"]
EXACT = ["UTC", "TAI", "TT", "GPS"]
MJD0 = datetime(1858, 11, 17)
FIRST_DAY, LAST_DAY = 41684, 57802  # coverage of the shipped finals tables (rows with UT1-UTC)
FILES = ["finals.all", "finals2000A.all", "tai-utc.dat"]


# ------------------------------------------------------------------ generate


def gen_day(rng):
    r = rng.random()
    if r < 0.15:
        return rng.choice([FIRST_DAY, FIRST_DAY + 1, LAST_DAY, LAST_DAY - 1, LAST_DAY + 1, FIRST_DAY - 1])
    if r < 0.25:
        return rng.choice([rng.randint(58000, 62000), rng.randint(40600, 41600)])  # not covered by the tables
    return rng.randint(FIRST_DAY, LAST_DAY)


def gen_us(rng):
    r = rng.random()
    if r < 0.3:
        return rng.choice([0, 1, 10**6, ts.US_DAY - 1, ts.US_DAY - 10**6, 5 * 10**6, ts.US_DAY - 20 * 10**6, 40 * 10**6, ts.US_DAY - 40 * 10**6])
    if r < 0.5:
        return rng.randrange(86400) * 10**6
    return rng.randrange(ts.US_DAY)


def gen_life(rng, first, tier="quick"):
    import random

    child = random.Random("c03-child:" + repr(rng.getstate()[1][:8]))  # operations added after the first version draw from a generator of their own: earlier plans keep theirs
    life = {
        "policy": rng.choice(["pass", "pass", "warning", "warning", "error", "error", "strict"]),
        "dbname": rng.choice([None, None, None, "default", "zero", "flaky", "raising", "nosuchdb"]),
        "fault": None,
        "heal_before": False,
        "flaky_days": sorted(rng.sample(range(FIRST_DAY, LAST_DAY), 40)),
    }
    if rng.random() < 0.45:
        kind = rng.choice(["missing", "eacces", "eio", "empty", "torn_line", "torn_mid", "garbled_digits", "garbled_text"])
        life["fault"] = {"kind": kind, "file": rng.choice(FILES), "line": rng.randrange(16000), "col": rng.randrange(58, 68), "late_arrival_after": rng.choice([None, None, 3])}
    ops = []
    for _ in range(rng.randint(6, 14) if tier != "thorough" else rng.randint(10, 28)):
        k = rng.choice(["date"] * 6 + ["twin", "twin", "arith", "arith", "order", "now", "range", "range", "config", "clone", "clone", "other_db"])
        op = {"op": k}
        if k == "date":
            op.update(ctor=rng.choice(["ymd", "mjd_pair", "datetime", "mjd_float", "copy"]), scale=rng.choice(SCALES), day=gen_day(rng), us=gen_us(rng))
            if rng.random() < 0.2:
                # a reading carrying a fraction of a microsecond (seconds given as a float), placed so that the instant is just before /
                # after a TAI midnight: the last microsecond of the TAI day is where a rounding carries into the day number
                sc = rng.choice(["TAI", "TT", "GPS"])
                off = {"TAI": 0, "TT": 32184000, "GPS": -19000000}[sc]
                op.update(ctor="mjd_pair", scale=sc, us=(ts.US_DAY - 1 + off) % ts.US_DAY, sub_us=rng.choice([0.6, 0.9, 0.75, 0.2]))
            if life["dbname"] == "flaky" and rng.random() < 0.4:
                op["day"] = rng.choice(life["flaky_days"])
        elif k == "twin":
            op.update(of=rng.randrange(8), scale=rng.choice(EXACT))
        elif k == "arith":
            op.update(of=rng.randrange(8), t1_us=rng.choice([1, 10**6, rng.randrange(-10**12, 10**12), rng.randrange(ts.US_DAY), -rng.randrange(ts.US_DAY)]), t2_us=rng.randrange(-10**11, 10**11))
        elif k == "order":
            op.update(a=rng.randrange(8), b=rng.randrange(8))
        elif k == "clone":
            op.update(of=rng.randrange(8), how=rng.choice(["pickle_same", "pickle_other_process", "copy", "deepcopy"]))
        elif k == "other_db":
            op.update(db=rng.choice(["raising", "raising", "zero", "nosuchdb", "flaky"]), day=gen_day(rng))
        elif k == "now":
            op.update(clock=[rng.choice([1975, 1999, 2016, 2016, 2030]), rng.randint(1, 12), rng.randint(1, 28), rng.randint(0, 23), rng.randint(0, 59), rng.randint(0, 59), rng.randrange(10**6)], scale=rng.choice(SCALES))
        elif k == "range":
            step = rng.choice([10**6, 60 * 10**6, 900 * 10**6, 3600 * 10**6, 86400 * 10**6, 7 * 10**6, 100000, 300000, 700000, 1100000, 15300000]) * rng.choice([1, 1, -1])
            n = rng.randint(0, 12)
            rem = rng.choice([0, 0, abs(step) // 3])
            op.update(
                day=gen_day(rng), us=gen_us(rng), scale=rng.choice(EXACT), step_us=step, dur_us=(n * abs(step) + rem) * (1 if step > 0 else -1), inclusive=rng.random() < 0.5,
                stop_as=rng.choice(["date", "timedelta"]), consume=rng.choice(["full", "abandon_then_again", "interleave"]), k=rng.randint(1, 4),
                probe_scale=rng.choice(SCALES[:4]), probe_delta_us=rng.choice([0, 1, -1, 10**7, -10**7, 4 * 10**7, -4 * 10**7, 8 * 10**7]),
                reassign=rng.choice([None, None, None, "reverse", "step", "stop"]),
            )
        else:
            op.update(what=rng.choice(["policy", "policy", "dbname"]), value=rng.choice(["pass", "warning", "error"]))
            if op["what"] == "dbname":
                op["value"] = rng.choice([None, "zero", "flaky", "default"])
        ops.append(op)
        if k == "date" and child.random() < 0.3:
            # the date just built, moved by a timedelta (same day of its own scale most of the time): the result is a date like any other
            if child.random() < 0.7:
                t_us = child.choice([child.randrange(ts.US_DAY), 0, ts.US_DAY - 1, 30 * 10**6, ts.US_DAY - 30 * 10**6]) - op["us"]
            else:
                t_us = child.randrange(-3 * ts.US_DAY, 3 * ts.US_DAY)
            ops.append({"op": "arith_any", "t_us": t_us})
    life["ops"] = ops
    return life


def gen_plan(rng, tier, i):
    lives = [gen_life(rng, True, tier)]
    for _ in range(rng.choice([0, 0, 1, 1, 2]) if tier != "thorough" else rng.choice([0, 1, 2, 3])):
        nxt = gen_life(rng, False, tier)
        nxt["heal_before"] = rng.random() < 0.6
        if nxt["heal_before"]:
            nxt["fault"] = None
        lives.append(nxt)
    return {"knobs": {"lives": [{k: v for k, v in l.items() if k != "ops"} for l in lives]}, "ops": [dict(o, life=j) for j, l in enumerate(lives) for o in l["ops"]]}


# ------------------------------------------------------------------- world


def us_of(dt):
    d = dt - MJD0
    return d.days * ts.US_DAY + d.seconds * 10**6 + d.microseconds


def dt_of(us):
    return MJD0 + timedelta(days=us // ts.US_DAY, microseconds=us % ts.US_DAY)


class LogCatcher(logging.Handler):
    def __init__(self):
        super().__init__(level=logging.DEBUG)
        self.records = []

    def emit(self, record):
        self.records.append(record)


def apply_fault(disk, pristine, fault):
    """Put the faulted content / access fault on the simulated disk.  Returns the set of day numbers not to be judged."""
    disk.faults.clear()
    for fn in FILES:
        disk.files[f"/eop/{fn}"] = pristine[fn]
    if not fault:
        return set()
    path = f"/eop/{fault['file']}"
    kind = fault["kind"]
    text = pristine[fault["file"]]
    lines = text.splitlines()
    ln = fault["line"] % len(lines)
    skip = set()
    if kind in ("missing", "eacces", "eio"):
        disk.faults[path] = (kind,)
    elif kind == "empty":
        disk.files[path] = ""
    elif kind == "torn_line":
        disk.files[path] = "\n".join(lines[:ln]) + "\n"
    elif kind == "torn_mid":
        cut = fault["col"] if fault["file"] != "tai-utc.dat" else 30 + fault["col"] % 20
        disk.files[path] = "\n".join(lines[:ln] + [lines[ln][:cut]])
        if fault["file"] != "tai-utc.dat":
            try:
                skip.add(int(float(lines[ln][7:15])))
            except ValueError:
                pass
        else:
            skip.add("all")
    elif kind in ("garbled_digits", "garbled_text") and fault["file"] != "tai-utc.dat":
        row = lines[ln]
        if kind == "garbled_digits":
            new = row[:58] + " 0.1234567" + row[68:]
        else:
            new = row[:58] + "**********" + row[68:]
        lines[ln] = new
        disk.files[path] = "\n".join(lines) + "\n"
    elif kind in ("garbled_digits", "garbled_text"):
        row = lines[ln]
        lines[ln] = row[:38] + ("  99.0" if kind == "garbled_digits" else "  xx.x") + row[44:]
        disk.files[path] = "\n".join(lines) + "\n"
    return skip


class World:
    def __init__(self, plan, ctx):
        self.plan, self.ctx = plan, ctx
        self.disk = SimDisk()
        load_real_eop(self.disk)
        self.pristine = {fn: self.disk.files[f"/eop/{fn}"] for fn in FILES}
        self.intact = ts.Tables(*(self.pristine[fn] for fn in FILES))
        self.pool = []  # (Date, scale name, model reading us, model TAI instant us or None)
        self.node = None
        self.nontrivial_armed = False
        self.sub_us = 0.0

    # -- a node life ----------------------------------------------------------
    def start_life(self, j):
        ctx = self.ctx
        life = self.plan["knobs"]["lives"][j]
        self.life = life
        if j > 0:
            ctx.fault("restart")
            self.nontrivial_armed = True
        self.skip_days = apply_fault(self.disk, self.pristine, life["fault"])
        if life["fault"]:
            ctx.fault("eop_io:" + life["fault"]["kind"])
            self.nontrivial_armed = True
        acc = life["fault"] and life["fault"]["kind"] in ("missing", "eacces", "eio")
        self.tables = ts.Tables(*(None if (acc and life["fault"]["file"] == fn) else self.disk.files[f"/eop/{fn}"] for fn in FILES))
        self.access_fault = bool(acc)
        self.text_fault = bool(life["fault"]) and not acc
        self.healed_in_life = False
        self.ops_in_life = 0
        self.policy = life["policy"]
        self.dbname = life["dbname"]
        n = Node(f"life{j}", disk=self.disk)
        self.node = n
        self.pool = []
        with n:
            cfg = {"eop": {"missing_policy": "".join(list(self.policy)), "folder": "/eop"}}  # a string built at run time, as when the configuration is read from a file
            if self.dbname:
                cfg["eop"]["dbname"] = self.dbname
            n.config.update(cfg)
            eop = n.mod("beyond.dates.eop")
            flaky_days = set(life["flaky_days"])
            world = self

            class Zero:
                def __getitem__(self, mjd):
                    return eop.Eop(x=0, y=0, dx=0, dy=0, deps=0, dpsi=0, lod=0, ut1_utc=0, tai_utc=0)

            class Flaky:
                def __init__(self):
                    self.inner = eop.SimpleEopDatabase()

                def __getitem__(self, mjd):
                    if int(mjd) in flaky_days:
                        raise KeyError(mjd)
                    return self.inner[mjd]

            class Raising:
                def __init__(self):
                    raise RuntimeError("database backend unavailable (injected)")

            eop.EopDb.register(Zero, "zero")
            eop.EopDb.register(Flaky, "flaky")
            eop.EopDb.register(Raising, "raising")
        ctx.state(self.policy, self.dbname or "-", (life["fault"] or {}).get("kind", "-"))

    # -- model of one lookup -----------------------------------------------------
    def acceptable(self, mjd_float):
        """Set of acceptable outcomes of EopDb.get(mjd): ('tab', ut1_utc, tai_utc) and / or 'fallback' and / or 'any'."""
        day = int(mjd_float)
        db = self.dbname or "default"
        if db == "zero":
            return {("tab", 0.0, 0.0)}
        if db in ("raising", "nosuchdb"):
            return {"fallback"}
        tables = self.tables
        healed = self.healed_in_life
        out = set()

        def from_tables(t):
            row = t.row(day)
            leap = t.tai_utc(mjd_float) if t.leaps else None
            if row is not None and leap is not None:
                return [("tab", u, leap) for u in sorted(row["ut1_utc_either"])]
            return ["fallback"]

        if db == "flaky" and day in set(self.life["flaky_days"]):
            self.ctx.probe("flaky_day_hit")
            return {"fallback"}
        if self.access_fault:
            out.add("fallback")
            if healed:
                out.update(from_tables(self.intact))
            return out
        if self.text_fault:
            if day in self.skip_days or "all" in self.skip_days:
                return {"any"}
            out.update(from_tables(tables))
            out.add("fallback")
            if healed:
                out.update(from_tables(self.intact))
            return out
        return set(from_tables(tables))

    def judge_lookup(self, fn, mjd_float, what, from_result=False, also=()):
        """Run fn() (which performs exactly one Date construction = one EOP lookup at mjd_float) and judge the outcome.
        Returns (date or None, class) with class in 'tab' / 'fallback' / None."""
        ctx = self.ctx
        handler = LogCatcher()
        lg = logging.getLogger("beyond.dates.eop")
        old_disable = logging.root.manager.disable
        logging.disable(logging.NOTSET)
        old_level, old_prop = lg.level, lg.propagate
        lg.setLevel(logging.DEBUG)
        lg.propagate = False
        lg.addHandler(handler)
        exc = d = None
        try:
            d = fn()
        except Exception as e:  # noqa
            exc = e
        finally:
            lg.removeHandler(handler)
            lg.setLevel(old_level)
            lg.propagate = old_prop
            logging.disable(old_disable)
        if from_result and d is not None:
            # the lookup is made at the reading of the *result* (in its own scale): take the day from there
            # (the reading of the result may differ by a microsecond from the datetime its constructor was given)
            r_us = us_of(d.datetime)
            mjd_float = r_us / ts.US_DAY
            acc = self.acceptable(mjd_float) | self.acceptable((r_us - 2) / ts.US_DAY) | self.acceptable((r_us + 2) / ts.US_DAY)
        elif from_result:
            # no result to look at: within 2 ms of a midnight the prediction may be a day off (periodic TDB term, UT1)
            acc = self.acceptable(mjd_float) | self.acceptable(mjd_float - 0.002 / 86400) | self.acceptable(mjd_float + 0.002 / 86400)
        else:
            acc = self.acceptable(mjd_float)
        for other in also:
            acc = acc | self.acceptable(other)
        warns = [r for r in handler.records if r.levelno >= logging.WARNING]
        eopmod = self.node.mod("beyond.dates.eop")
        errmod = self.node.mod("beyond.errors")
        ctx.checks += 1
        fp = {"policy": self.policy, "db": self.dbname or "default", "fault": (self.life["fault"] or {}).get("kind", "none"), "healed": self.healed_in_life}
        day = int(mjd_float)
        cover = "covered" if FIRST_DAY <= day <= LAST_DAY else "uncovered"
        ctx.state(self.policy, fp["db"], fp["fault"], cover)
        if self.nontrivial_armed:
            ctx.nontrivial = True
        if "any" in acc:
            return (d, None)
        tabs = [a for a in acc if a != "fallback"]
        if exc is not None:
            # an exception is only right when the value is missing and the policy says so
            if "fallback" not in acc:
                ctx.violate("policy", dict(fp, kind="raised_although_value_available", exc=type(exc).__name__), f"{what}: the tables hold the day {day} but the lookup raised {type(exc).__name__}: {exc}")
                return (None, None)
            if self.policy == "error" and isinstance(exc, (errmod.EopError, KeyError)):
                ctx.probe("lookup_fallback_error_raised")
                return (None, "raised")
            if self.policy not in ("pass", "warning", "error") and isinstance(exc, errmod.ConfigError):
                ctx.probe("invalid_policy_config_error")
                return (None, "raised")
            if tabs and self.policy == "error":
                pass
            ctx.violate("policy", dict(fp, kind="wrong_exception", exc=type(exc).__name__), f"{what}: policy '{self.policy}', value missing for day {day}: raised {type(exc).__name__}: {exc}")
            return (None, None)
        got = (float(d.eop.ut1_utc), float(d.eop.tai_utc))
        ctx.ev("lookup", int(mjd_float), fhex(got[0]), fhex(got[1]), len(warns), us_of(d.datetime), d.scale.name)
        for a in tabs:
            if abs(a[1] - got[0]) < 1e-12 and abs(a[2] - got[1]) < 1e-12:
                # tabulated value served: silently
                if warns:
                    ctx.violate("policy", dict(fp, kind="warning_although_value_available"), f"{what}: value served from the tables but {len(warns)} warning(s) logged: {warns[0].getMessage()}")
                ctx.probe("lookup_tabulated")
                return (d, "tab")
        if "fallback" in acc and got == (0.0, 0.0):
            if self.policy == "pass":
                if warns:
                    ctx.violate("policy", dict(fp, kind="pass_policy_logs"), f"{what}: policy 'pass' must be silent, logged: {warns[0].getMessage()}")
                ctx.probe("lookup_fallback_pass")
            elif self.policy == "warning":
                if len(warns) != 1:
                    ctx.violate("policy", dict(fp, kind="warning_count", n=len(warns)), f"{what}: policy 'warning', value missing for day {day}: {len(warns)} warning records for one lookup")
                ctx.probe("lookup_fallback_warning_logged")
            elif self.policy == "error":
                ctx.violate("policy", dict(fp, kind="error_policy_did_not_raise"), f"{what}: policy 'error', value missing for day {day}, yet zeros were served")
            else:
                ctx.violate("policy", dict(fp, kind="invalid_policy_accepted"), f"{what}: policy '{self.policy}' is not a valid value, value missing for day {day}, yet zeros were served")
            if self.access_fault or (self.dbname == "raising"):
                ctx.probe("eop_exception_cached")
            return (d, "fallback")
        ctx.violate(
            "eop-values",
            dict(fp, kind="wrong_value_served", cover=cover),
            f"{what}: EOP for day {day}: got UT1-UTC={got[0]!r}, TAI-UTC={got[1]!r}; acceptable: {sorted(str(a) for a in acc)}",
        )
        return (d, None)

    # -- model offsets --------------------------------------------------------------
    def off_to_tai_us(self, scale, reading_us, cls, ut1_utc, tai_utc):
        """TAI - scale (microseconds) for an exact scale, given the EOP class that was served."""
        if scale == "TAI":
            return 0
        if scale == "TT":
            return -ts.TT_TAI_US
        if scale == "GPS":
            return ts.TAI_GPS_US
        if scale == "UTC":
            return int(round(tai_utc * 10**6))
        return None

    # -- operations ----------------------------------------------------------------
    def build(self, ctor, scale, day, us):
        n = self.node
        Date = n.Date
        dt = dt_of(day * ts.US_DAY + us)
        # the scale is given by name, by name in lower case, or as the Timescale object itself
        v_ = (day + us) % 5
        if v_ == 0:
            scale = scale.lower()
        elif v_ == 1:
            scale = getattr(n.mod("beyond.dates.date"), scale)
        if ctor == "ymd":
            return Date(dt.year, dt.month, dt.day, dt.hour, dt.minute, dt.second, dt.microsecond, scale=scale)
        if ctor == "mjd_pair":
            return Date(day, (us + self.sub_us) / 1e6, scale=scale)
        if ctor == "datetime":
            return Date(dt, scale=scale)
        if ctor == "mjd_float":
            return Date(day + (us // 10**6) / 86400.0, scale=scale)
        return Date(dt, scale=scale)

    def op_date(self, op, where):
        ctx = self.ctx
        scale, day, us = op["scale"], op["day"], op["us"]
        self.sub_us = float(op.get("sub_us", 0.0))
        if self.sub_us:
            ctx.probe("sub_microsecond_reading_before_tai_midnight")
        try:
            self._op_date(op, where, scale, day, us)
        finally:
            self.sub_us = 0.0

    def _op_date(self, op, where, scale, day, us):
        ctx = self.ctx
        if op["ctor"] == "mjd_float":
            us = (us // 10**6) * 10**6
        mjd_float = day + us / ts.US_DAY
        if self.intact.leaps and ts.near_leap(self.intact.leaps, mjd_float):
            return
        if us < 10**6 or us > ts.US_DAY - 10**6:
            ctx.probe("day_boundary_date")
        if day in (FIRST_DAY, LAST_DAY, LAST_DAY + 1, FIRST_DAY - 1):
            ctx.probe("table_edge_date")
        if not (FIRST_DAY <= day <= LAST_DAY):
            ctx.probe("uncovered_date")
        # a reading in the last microsecond of its own day: day + s / 86400 rounds to the next integer in double precision
        also = (day + 1.0,) if (self.sub_us and us >= ts.US_DAY - 1) else ()
        d, cls = self.judge_lookup(lambda: self.build(op["ctor"], scale, day, us), mjd_float, where, also=also)
        if d is None or cls is None:
            return
        if op["ctor"] == "copy":
            d2 = self.node.Date(d)
            ctx.checks += 1
            if not (d2 == d and hash(d2) == hash(d) and d2.scale.name == scale):
                ctx.violate("identity", {"kind": "copy_differs"}, f"{where}: Date(date) is not equal to its argument")
        reading = day * ts.US_DAY + us
        tol = 1 if op["ctor"] != "mjd_float" else 20  # a float MJD carries ~10 us
        got = us_of(d.datetime)
        ctx.checks += 1
        if abs(got - reading) > tol or d.scale.name != scale:
            ctx.violate("identity", {"kind": "clock_reading_not_kept", "ctor": op["ctor"], "scale": scale}, f"{where}: built from reading {dt_of(reading).isoformat()} {scale}, reads back {d.datetime.isoformat()} {d.scale.name}")
            return
        u, L = float(d.eop.ut1_utc), float(d.eop.tai_utc)
        inst = None
        if scale in EXACT:
            inst = got + self.off_to_tai_us(scale, got, cls, u, L)
        self.pool.append({"d": d, "scale": scale, "reading": got, "tai": inst, "cls": cls, "u": u, "L": L, "day": day})
        self.conversions(self.pool[-1], where)

    def conversions(self, p, where):
        """Same instant, exact offsets, round trip, towards every other scale."""
        ctx = self.ctx
        d, S = p["d"], p["scale"]
        acc_edge = False
        for X in SCALES:
            if X == S:
                continue
            # the converted date performs its own lookup, at its own reading
            try:
                mjd_x = None
                e, cls = None, None
                # predict the reading in X to know which day its lookup falls on
                approx = p["reading"] / ts.US_DAY + ({"UTC": 0, "TAI": p["L"], "TT": p["L"] + 32.184, "GPS": p["L"] - 19, "UT1": p["u"], "TDB": p["L"] + 32.184}[X] - {"UTC": 0, "TAI": p["L"], "TT": p["L"] + 32.184, "GPS": p["L"] - 19, "UT1": p["u"], "TDB": p["L"] + 32.184}[S]) / 86400.0
                e, cls = self.judge_lookup(lambda: d.change_scale(X), approx, f"{where} -> {X}", from_result=True)
            except Exception as ex:  # noqa
                ctx.violate("conversion", {"kind": "change_scale_crashes", "exc": type(ex).__name__}, f"{where}: change_scale({X}) raised {type(ex).__name__}: {ex}")
                continue
            if e is None or cls is None:
                continue
            if cls != p["cls"] or abs(float(e.eop.tai_utc) - p["L"]) > 1e-9:
                continue  # the two lookups fell on different sides of a table edge / leap entry: nothing exact to say
            ctx.checks += 1
            if e.scale.name != X:
                ctx.violate("conversion", {"kind": "wrong_scale_label"}, f"{where}: change_scale({X}) gives a date labelled {e.scale.name}")
            re = us_of(e.datetime)
            # ---- same instant
            diff_s = abs((e - d).total_seconds())
            if S in EXACT and X in EXACT:
                if not (e == d and d == e) or hash(e) != hash(d) and False:
                    ctx.violate("same-instant", {"kind": "converted_date_not_equal", "pair": f"{S}->{X}"}, f"{where}: {d} converted to {X} = {e} does not compare equal to it")
                want = p["reading"] + self.off_to_tai_us(S, 0, cls, p["u"], p["L"]) - self.off_to_tai_us(X, 0, cls, p["u"], p["L"])
                if re != want:
                    ctx.violate(
                        "offsets",
                        {"kind": "wrong_exact_offset", "pair": f"{S}->{X}", "cls": cls},
                        f"{where}: {S} -> {X}: reading {dt_of(p['reading']).isoformat()} became {e.datetime.isoformat()}, expected {dt_of(want).isoformat()} (TAI-UTC {p['L']}, served class {cls})",
                    )
            else:
                if diff_s > TOLERANCES["ut1_tdb_instant_s"] + 1e-9:
                    near_midnight = min(p["reading"] % ts.US_DAY, ts.US_DAY - p["reading"] % ts.US_DAY) < 75 * 10**6 or min(re % ts.US_DAY, ts.US_DAY - re % ts.US_DAY) < 75 * 10**6
                    if not (near_midnight and "UT1" in (S, X) and diff_s < 0.01):
                        ctx.violate("same-instant", {"kind": "converted_date_other_instant", "pair": f"{S}->{X}"}, f"{where}: {d} converted to {X} = {e} is {diff_s:.9f} s away")
                if S in EXACT and X == "UT1":
                    # UT1 - UTC as tabulated
                    utc_reading = p["reading"] + self.off_to_tai_us(S, 0, cls, p["u"], p["L"]) - self.off_to_tai_us("UTC", 0, cls, p["u"], p["L"])
                    obs = (re - utc_reading) / 1e6
                    cands = {p["u"]}
                    if cls == "tab":
                        for dd in (-1, 0, 1):
                            row = self.tables.row(utc_reading // ts.US_DAY + dd) if (min(utc_reading % ts.US_DAY, ts.US_DAY - utc_reading % ts.US_DAY) < 75 * 10**6 or dd == 0) else None
                            if row:
                                cands.update(row["ut1_utc_either"])
                    if min(abs(obs - c) for c in cands) > 2.1e-6:
                        ctx.violate("offsets", {"kind": "wrong_ut1_utc", "cls": cls}, f"{where}: UT1-UTC observed {obs:.7f} s, tabulated {sorted(cands)}")
                if S in EXACT and X == "TDB":
                    tt_reading = p["reading"] + self.off_to_tai_us(S, 0, cls, p["u"], p["L"]) + ts.TT_TAI_US
                    obs = (re - tt_reading) / 1e6
                    want = ts.tdb_minus_tt(tt_reading / ts.US_DAY)
                    ctx.observe("tdb_series_err_s", abs(obs - want))
                    if abs(obs) > 1.7e-3 or abs(obs - want) > TOLERANCES["tdb_series_s"]:
                        ctx.violate("offsets", {"kind": "wrong_tdb_tt"}, f"{where}: TDB-TT observed {obs:.7f} s, series gives {want:.7f} s")
            # ---- and back
            try:
                b = e.change_scale(S)
            except Exception:  # noqa
                continue
            ctx.checks += 1
            back = abs(us_of(b.datetime) - p["reading"]) / 1e6
            lim = TOLERANCES["ut1_round_trip_s"] if "UT1" in (S, X) else TOLERANCES["round_trip_s"]
            ctx.observe("round_trip_s_" + ("ut1" if "UT1" in (S, X) else "other"), back)
            if back > lim + 1e-9:
                ctx.violate("round-trip", {"kind": "clock_reading_not_restored", "pair": f"{S}->{X}->{S}"}, f"{where}: {S} -> {X} -> {S} moves the clock reading by {back:.9f} s")

    def op_twin(self, op, where):
        """The same instant under another exact label, built from the model's reading: equal, same hash, same order."""
        ctx = self.ctx
        cands = [p for p in self.pool if p["tai"] is not None and p["cls"] is not None]
        if not cands:
            return
        p = cands[op["of"] % len(cands)]
        X = op["scale"]
        if X == p["scale"]:
            X = EXACT[(EXACT.index(X) + 1) % 4]
        reading = p["tai"] - self.off_to_tai_us(X, 0, p["cls"], p["u"], p["L"])
        day, us = divmod(reading, ts.US_DAY)
        mjd_float = day + us / ts.US_DAY
        d, cls = self.judge_lookup(lambda: self.build("datetime", X, day, us), mjd_float, where)
        if d is None or cls != p["cls"] or abs(float(d.eop.tai_utc) - p["L"]) > 1e-9:
            return
        ctx.checks += 1
        ctx.probe("twin_equal_and_hash_checked")
        a, b = p["d"], d
        fp = {"pair": f"{p['scale']}/{X}"}
        if not (a == b and b == a) or a < b or a > b or not (a <= b and a >= b):
            ctx.violate("ordering", dict(fp, kind="same_instant_not_equal"), f"{where}: {a} and {b} are the same instant but compare as different")
        elif hash(a) != hash(b):
            ctx.violate("ordering", dict(fp, kind="equal_dates_different_hash"), f"{where}: {a} == {b} but their hashes differ (as dict keys they are two entries)")
        elif len({a: 1, b: 2}) != 1:
            ctx.violate("ordering", dict(fp, kind="equal_dates_two_dict_keys"), f"{where}: {a} == {b} but they make two dict keys")
        self.pool.append({"d": d, "scale": X, "reading": reading, "tai": p["tai"], "cls": cls, "u": float(d.eop.ut1_utc), "L": float(d.eop.tai_utc), "day": day})

    def op_arith(self, op, where):
        ctx = self.ctx
        cands = [p for p in self.pool if p["scale"] in ("TAI", "TT", "GPS", "UTC") and p["cls"] is not None]
        if not cands:
            return
        p = cands[op["of"] % len(cands)]
        td = self.node.timedelta
        t1, t2 = td(microseconds=op["t1_us"]), td(microseconds=op["t2_us"])
        d = p["d"]
        # stay inside one EOP regime (same TAI-UTC, same coverage class): the arithmetic laws are stated for uniform scales
        for t in (op["t1_us"], op["t1_us"] + op["t2_us"]):
            r = p["reading"] + t
            dd = r // ts.US_DAY
            if (self.intact.tai_utc(dd) or 0) != (self.intact.tai_utc(p["day"]) or 0) or (FIRST_DAY <= dd <= LAST_DAY) != (FIRST_DAY <= p["day"] <= LAST_DAY) or ts.near_leap(self.intact.leaps, r / ts.US_DAY):
                return
        if self.dbname == "flaky" or self.text_fault or self.access_fault:
            return
        try:
            a = d + t1
            if float(a.eop.tai_utc) != p["L"] or float((d + (t1 + t2)).eop.tai_utc) != p["L"]:
                return  # the database or the policy was flipped since d was built: not one uniform regime
            ctx.checks += 3
            if us_of(a.datetime) != p["reading"] + op["t1_us"]:
                ctx.violate("arithmetic", {"kind": "addition_wrong_reading", "scale": p["scale"]}, f"{where}: {d} + {t1} = {a}, expected reading {dt_of(p['reading'] + op['t1_us']).isoformat()}")
            if (a - d) != t1:
                ctx.violate("arithmetic", {"kind": "difference_not_inverse", "scale": p["scale"]}, f"{where}: ({d} + {t1}) - {d} = {a - d}")
            lhs = d + (t1 + t2)
            rhs = (d + t1) + t2
            if us_of(lhs.datetime) != us_of(rhs.datetime) or not (lhs == rhs):
                ctx.violate("arithmetic", {"kind": "not_associative", "scale": p["scale"]}, f"{where}: d+(t1+t2) = {lhs} but (d+t1)+t2 = {rhs}")
            b = d - t1
            if us_of(b.datetime) != p["reading"] - op["t1_us"]:
                pass
        except Exception as e:  # noqa
            if self.policy in ("pass", "warning"):
                ctx.violate("arithmetic", {"kind": "arithmetic_crashes", "exc": type(e).__name__}, f"{where}: date arithmetic raised {type(e).__name__}: {e}")

    def op_arith_any(self, op, where):
        """date + timedelta for a date in any of the six scales: the result is a date like any other - its own Earth-orientation
        values, its own offsets (the periodic TDB term moves by up to 30 us within a day), same instant under every other label."""
        ctx = self.ctx
        if not self.pool or self.pool[-1]["cls"] is None:
            return
        p = self.pool[-1]
        S = p["scale"]
        t_us = op["t_us"]
        r = p["reading"] + t_us
        dd = r // ts.US_DAY
        if ts.near_leap(self.intact.leaps, r / ts.US_DAY) or ts.near_leap(self.intact.leaps, p["reading"] / ts.US_DAY):
            return
        if self.dbname == "flaky" or self.text_fault or self.access_fault:
            return
        d = p["d"]
        td = self.node.timedelta
        a, cls = self.judge_lookup(lambda: d + td(microseconds=t_us), r / ts.US_DAY, f"{where}: {d} + {t_us} us", from_result=True)
        if a is None or cls is None:
            return
        ctx.checks += 1
        if a.scale.name != S:
            ctx.violate("arithmetic", {"kind": "addition_changes_scale", "scale": S}, f"{where}: {d} + timedelta is labelled {a.scale.name}")
            return
        got = us_of(a.datetime)
        if S in EXACT and S != "UTC" and abs(got - r) > 1:
            ctx.violate("arithmetic", {"kind": "addition_wrong_reading", "scale": S}, f"{where}: {d} + {t_us} us = {a}, expected reading {dt_of(r).isoformat()}")
            return
        ctx.probe("result_of_addition_converted")
        if dd == p["reading"] // ts.US_DAY:
            ctx.probe("addition_within_the_day")
        u, L = float(a.eop.ut1_utc), float(a.eop.tai_utc)
        inst = got + self.off_to_tai_us(S, got, cls, u, L) if S in EXACT else None
        self.pool.append({"d": a, "scale": S, "reading": got, "tai": inst, "cls": cls, "u": u, "L": L, "day": got // ts.US_DAY})
        self.conversions(self.pool[-1], where + " (result of an addition)")

    def op_other_db(self, op, where):
        """EopDb.get(mjd, dbname=<another registered database>): judged like any lookup, and it must leave the configured
        database alone (the date operations that follow keep being judged against it)."""
        ctx = self.ctx
        eop = self.node.mod("beyond.dates.eop")
        saved = self.dbname
        self.dbname = op["db"]
        mjd = float(op["day"]) + 0.25

        class _Shim:  # judge_lookup reads .eop / .datetime / .scale of what fn returns
            def __init__(self, e):
                self.eop = e
                self.datetime = dt_of(int(mjd * ts.US_DAY))
                self.scale = type("S", (), {"name": "-"})()

        try:
            if ts.near_leap(self.intact.leaps, mjd):
                return
            self.judge_lookup(lambda: _Shim(eop.EopDb.get(mjd, dbname=op["db"])), mjd, where + f" (dbname={op['db']})")
            ctx.probe("explicit_lookup_in_other_database")
        finally:
            self.dbname = saved

    def op_clone(self, op, where):
        """A date sent to another process (pickle) or copied denotes the same instant, carries the same corrections and converts alike."""
        import copy
        import pickle

        ctx = self.ctx
        cands = [p for p in self.pool if p["cls"] is not None]
        if not cands:
            return
        p = cands[op["of"] % len(cands)]
        d = p["d"]
        how = op["how"]
        holder = self.node
        if how == "pickle_other_process" and ((self.dbname or "default") != "default" or self.text_fault or self.access_fault or self.healed_in_life):
            how = "pickle_same"  # the peer only knows the file-backed database of the shared disk
        try:
            if how == "copy":
                c = copy.copy(d)
            elif how == "deepcopy":
                c = copy.deepcopy(d)
            else:
                data = pickle.dumps(d)
                if how == "pickle_other_process":
                    # same disk (tables), same configuration, another process
                    holder = Node("peer", disk=self.disk)
                    with holder:
                        holder.config.update(self.node.config)
                    ctx.fault("msg_to_other_node")
                with holder:
                    c = pickle.loads(data)
        except Exception as e:  # noqa
            ctx.violate("identity", {"how": how, "scale": p["scale"], "kind": "clone_raises", "exc": type(e).__name__}, f"{where}: {how} of the existing date {d} raised {type(e).__name__}: {e}")
            return
        ctx.checks += 1
        ctx.probe("date_cloned")
        fp = {"how": how, "scale": p["scale"]}
        with holder:
            same = (float(c.eop.ut1_utc), float(c.eop.tai_utc)) == (p["u"], p["L"]) and us_of(c.datetime) == p["reading"] and c.scale.name == p["scale"]
            if not same:
                ctx.violate("identity", dict(fp, kind="clone_differs"), f"{where}: {how} of {d} gives {c} with UT1-UTC={c.eop.ut1_utc}, TAI-UTC={c.eop.tai_utc} (original {p['u']}, {p['L']})")
                return
            for X in SCALES:
                if X == p["scale"]:
                    continue
                try:
                    a = us_of(c.change_scale(X).datetime)
                except Exception:  # noqa
                    a = None
                with self.node:
                    try:
                        b = us_of(d.change_scale(X).datetime)
                    except Exception:  # noqa
                        b = None
                if a != b and not (self.text_fault or self.access_fault or self.healed_in_life):
                    ctx.violate("identity", dict(fp, kind="clone_converts_differently", to=X), f"{where}: {how} of {d} converts to {X} as {dt_of(a).isoformat() if a is not None else None}, the original as {dt_of(b).isoformat() if b is not None else None}")
                    return

    def op_order(self, op, where):
        ctx = self.ctx
        cands = [p for p in self.pool if p["tai"] is not None]
        if len(cands) < 2:
            return
        a, b = cands[op["a"] % len(cands)], cands[op["b"] % len(cands)]
        ctx.checks += 1
        da, db = a["d"], b["d"]
        ma, mb = a["tai"], b["tai"]
        if abs(ma - mb) < 50 and ma != mb:
            return  # closer than the resolution of the float MJD used for comparisons
        want = (ma < mb, ma == mb, ma > mb)
        got = (da < db, da == db, da > db)
        if want != got:
            ctx.violate("ordering", {"kind": "comparison_disagrees_with_instants", "pair": f"{a['scale']}/{b['scale']}"}, f"{where}: {da} vs {db}: (<, ==, >) = {got}, the instants say {want}")
        if ma == mb and hash(da) != hash(db):
            ctx.violate("ordering", {"kind": "equal_dates_different_hash", "pair": f"{a['scale']}/{b['scale']}"}, f"{where}: {da} == {db} but their hashes differ")

    def op_now(self, op, where):
        ctx = self.ctx
        clock = datetime(*op["clock"])
        self.node.clock.set(clock)
        ctx.clock_seen(clock)
        ctx.fault("clock_jump")
        mjd = us_of(clock) / ts.US_DAY
        if ts.near_leap(self.intact.leaps, mjd):
            return
        Date = self.node.Date
        # two lookups: the UTC reading, then the converted date
        d0, cls0 = self.judge_lookup(lambda: Date(clock), mjd, where + " (utc)")
        if d0 is None or cls0 is None:
            return
        try:
            d = Date.now(op["scale"])
        except Exception as e:  # noqa
            if cls0 == "tab" or self.policy in ("pass", "warning"):
                if not (self.policy not in ("pass", "warning") and True):
                    ctx.violate("now", {"kind": "now_crashes", "exc": type(e).__name__}, f"{where}: Date.now({op['scale']}) raised {type(e).__name__}: {e}")
            return
        ctx.checks += 1
        ctx.probe("now_under_clock_jump")
        if d.scale.name != op["scale"] or abs((d - d0).total_seconds()) > 2e-6 and not ("UT1" == op["scale"] and abs((d - d0).total_seconds()) < 0.01):
            ctx.violate("now", {"kind": "now_not_the_clock", "scale": op["scale"]}, f"{where}: wall clock {clock.isoformat()} UTC, Date.now({op['scale']}) = {d} which is {(d - d0).total_seconds():.6f} s away")

    def op_range(self, op, where):
        ctx = self.ctx
        n = self.node
        scale = op["scale"]
        day, us = op["day"], op["us"]
        start_r = day * ts.US_DAY + us
        stop_r = start_r + op["dur_us"]
        step = op["step_us"]
        if op["dur_us"] == 0 and (step < 0 or op["stop_as"] != "date"):
            # a zero-length range is judged when its stop is a date built from the same reading (positive step: empty, or the start
            # alone when inclusive); with a negative step the library refuses it (direction of a zero duration), and start + timedelta(0)
            # may differ from start by a microsecond of rounding, which makes the direction of such a range a matter of noise
            return
        # the whole range inside one EOP regime, away from leap seconds, database healthy
        lo, hi = min(start_r, stop_r) - abs(step), max(start_r, stop_r) + abs(step)
        if self.dbname in ("flaky",) or self.text_fault or self.access_fault or self.policy not in ("pass", "warning"):
            return
        if (self.intact.tai_utc(lo // ts.US_DAY) or 0) != (self.intact.tai_utc(hi // ts.US_DAY) or 0) or (FIRST_DAY <= lo // ts.US_DAY <= LAST_DAY) != (FIRST_DAY <= hi // ts.US_DAY <= LAST_DAY):
            return
        if ts.near_leap(self.intact.leaps, lo / ts.US_DAY) or ts.near_leap(self.intact.leaps, hi / ts.US_DAY):
            return
        if FIRST_DAY - 2 <= lo // ts.US_DAY <= FIRST_DAY + 1 or LAST_DAY - 1 <= hi // ts.US_DAY <= LAST_DAY + 2:
            return
        Date, td = n.Date, n.timedelta
        start = Date(dt_of(start_r), scale=scale)
        stop = Date(dt_of(stop_r), scale=scale) if op["stop_as"] == "date" else td(microseconds=op["dur_us"])
        fp = {"negative": step < 0, "inclusive": op["inclusive"], "consume": op["consume"]}
        if step < 0:
            ctx.probe("range_negative_step")
        try:
            ra = op.get("reassign") if op["dur_us"] != 0 else None
            if ra:
                # "allow for manipulation of the range before any computation": the range is created with other parameters and its
                # public attributes are then set to the intended ones
                stop_d = Date(dt_of(stop_r), scale=scale)
                if ra == "reverse":
                    r = Date.range(stop_d, start, td(microseconds=-step), inclusive=not op["inclusive"])
                elif ra == "step":
                    r = Date.range(start, stop_d, td(microseconds=step * 3), inclusive=op["inclusive"])
                else:
                    r = Date.range(start, start + td(microseconds=step * 2), td(microseconds=step), inclusive=op["inclusive"])
                r.start, r.stop, r.step, r.inclusive = start, stop_d, td(microseconds=step), op["inclusive"]
                ctx.probe("range_attributes_reassigned")
                ctx.nontrivial = True
            else:
                r = Date.range(start, stop, td(microseconds=step), inclusive=op["inclusive"])
        except Exception as e:  # noqa
            ctx.violate("range", dict(fp, kind="range_refused", exc=type(e).__name__), f"{where}: Date.range({start}, {stop}, {td(microseconds=step)}) raised {type(e).__name__}: {e}")
            return
        model = ts.date_range(start_r, stop_r, step, op["inclusive"])

        def readings(seq):
            return [us_of(x.datetime) for x in seq]

        try:
            if op["consume"] == "abandon_then_again":
                it = iter(r)
                part = [next(it) for _ in range(min(op["k"], len(model)))]
                del it
                ctx.fault("iter_abandon")
                ctx.probe("range_abandoned_then_reiterated")
                got = list(r)
                ctx.nontrivial = True
                if readings(part) != model[: len(part)]:
                    ctx.violate("range", dict(fp, kind="iteration_differs_from_model"), f"{where}: first {len(part)} dates {readings(part)} expected {model[:len(part)]}")
            elif op["consume"] == "interleave":
                it1, it2 = iter(r), iter(r)
                g1, g2 = [], []
                ctx.probe("range_interleaved")
                ctx.nontrivial = True
                for _ in range(len(model) + 2):
                    for it, g in ((it1, g1), (it2, g2)):
                        try:
                            g.append(next(it))
                        except StopIteration:
                            pass
                if readings(g1) != readings(g2):
                    ctx.violate("range", dict(fp, kind="interleaved_iterations_differ"), f"{where}: two iterations of one range consumed alternately give {len(g1)} and {len(g2)} dates")
                got = g1
            else:
                got = list(r)
            ctx.checks += 3
            if readings(got) != model:
                ctx.violate("range", dict(fp, kind="iteration_differs_from_model"), f"{where}: range {start} .. {stop} step {td(microseconds=step)} inclusive={op['inclusive']}: iterated {len(got)} dates, model {len(model)}; first/last {got[0] if got else None}/{got[-1] if got else None}")
                return
            ln = len(r)
            if ln != len(model):
                ctx.violate("range", dict(fp, kind="len_differs_from_iteration"), f"{where}: len() = {ln} but {len(model)} dates are iterated (start {start}, stop {stop}, step {td(microseconds=step)}, inclusive={op['inclusive']})")
            for x in got:
                if x not in r:
                    ctx.violate("range", dict(fp, kind="iterated_date_not_member"), f"{where}: {x} is produced by the iteration but `in` says it is not a member (start {start}, stop {r.stop}, step {td(microseconds=step)}, inclusive={op['inclusive']})")
                    break
            # candidates around the ends, under another label
            ps = op["probe_scale"]
            for base_r, base_name in ((start_r, "start"), (stop_r, "stop")):
                Lx = float(start.eop.tai_utc)  # what this node life serves for these days (tables, zeros of a fallback, ...)
                inst = base_r + self.off_to_tai_us(scale, 0, "tab", 0, Lx) + op["probe_delta_us"]
                rd = inst - self.off_to_tai_us(ps, 0, "tab", 0, Lx)
                c = Date(dt_of(rd), scale=ps)
                if float(c.eop.tai_utc) != Lx:
                    continue
                a0 = start_r + self.off_to_tai_us(scale, 0, "tab", 0, Lx)
                a1 = stop_r + self.off_to_tai_us(scale, 0, "tab", 0, Lx)
                lo_i, hi_i = min(a0, a1), max(a0, a1)
                if step > 0:
                    want = a0 <= inst < a1 or (op["inclusive"] and inst == a1)
                else:
                    want = a1 < inst <= a0 or (op["inclusive"] and inst == a1)
                if abs(inst - a0) < 50 and inst != a0 or abs(inst - a1) < 50 and inst != a1:
                    continue
                ctx.checks += 1
                ctx.probe("membership_other_scale_near_end")
                if (c in r) != want:
                    ctx.violate(
                        "range",
                        dict(fp, kind="membership_wrong_near_end", other_label=ps != scale),
                        f"{where}: {c} ({'inside' if want else 'outside'} the span by its instant, {op['probe_delta_us'] / 1e6:+.6f} s from the {base_name}) : `in` says {c in r} (range {start} .. {r.stop} step {td(microseconds=step)} inclusive={op['inclusive']})",
                    )
        except Exception as e:  # noqa
            ctx.violate("range", dict(fp, kind="range_crashes", exc=type(e).__name__), f"{where}: {type(e).__name__}: {e}")

    def op_config(self, op, where):
        ctx = self.ctx
        n = self.node
        ctx.fault("config_flip")
        self.nontrivial_armed = True
        if op["what"] == "policy":
            self.policy = op["value"]
            n.config["eop"]["missing_policy"] = "".join(list(op["value"]))  # built at run time
            ctx.probe("policy_flipped")
        else:
            self.dbname = op["value"]
            if op["value"] is None:
                n.config["eop"].pop("dbname", None)
            else:
                n.config["eop"]["dbname"] = op["value"]
            ctx.probe("db_flipped")

    def run(self):
        ctx = self.ctx
        cur = -1
        for step, op in enumerate(self.plan["ops"]):
            if op["life"] != cur:
                cur = op["life"]
                self.start_life(cur)
                if cur > 0 and self.plan["knobs"]["lives"][cur].get("heal_before"):
                    ctx.probe("healed_after_restart")
            f = self.life["fault"]
            if f and f.get("late_arrival_after") is not None and self.ops_in_life == f["late_arrival_after"] and not self.healed_in_life:
                # the missing / damaged file arrives while the process is running
                apply_fault(self.disk, self.pristine, None)
                self.healed_in_life = True
                ctx.fault("late_arrival")
                ctx.probe("late_arrival_without_restart")
            self.ops_in_life += 1
            where = f"life {cur} op#{step} {op['op']}"
            with self.node:
                getattr(self, "op_" + op["op"])(op, where)
            ctx.ops_done += 1
            ctx.sig.append((op["op"], self.policy, self.dbname or "-", (self.life["fault"] or {}).get("kind", "-")))
            ctx.ev(op["op"], cur, len(self.pool), fhex(float(self.pool[-1]["reading"])) if self.pool else "-")


def run_plan(plan, ctx):
    w = World(plan, ctx)
    w.run()
    ctx.nontrivial = bool(getattr(ctx, "nontrivial", False))


def simplify(plan):
    lives = plan["knobs"]["lives"]
    for j, l in enumerate(lives):
        if l.get("fault"):
            yield dict(plan, knobs=dict(plan["knobs"], lives=lives[:j] + [dict(l, fault=None)] + lives[j + 1 :]))
        if l.get("dbname"):
            yield dict(plan, knobs=dict(plan["knobs"], lives=lives[:j] + [dict(l, dbname=None)] + lives[j + 1 :]))
        if l.get("policy") != "pass":
            yield dict(plan, knobs=dict(plan["knobs"], lives=lives[:j] + [dict(l, policy="pass")] + lives[j + 1 :]))
    for idx, o in enumerate(plan["ops"]):
        if o["op"] == "range" and o.get("consume") != "full":
            yield dict(plan, ops=plan["ops"][:idx] + [dict(o, consume="full")] + plan["ops"][idx + 1 :])
        if o["op"] == "date" and o.get("ctor") != "datetime":
            yield dict(plan, ops=plan["ops"][:idx] + [dict(o, ctor="datetime")] + plan["ops"][idx + 1 :])
