"""C20 - conversion routing is correct for every registration order.

Two layers (DESIGN.md 5.1):
  abstract : real `beyond.utils.node.Node` objects; 2-3 replicas receive the same
             multiset of link messages in their own seeded order / orientation,
             some duplicated, with path queries interleaved.  Model: explicit
             adjacency + BFS.
  frames   : the real registries of 2-3 replica nodes (private package copies):
             stations, orbit-attached frames, body frames registered in
             different orders with conversions interleaved.
"""

import itertools
from collections import deque

import numpy as np

from sim.node import Node
from sim.core import fhex

LEVEL = "exploration"
TIERS = {
    "quick": {"runs": 2400, "max_wall": 150, "chunk": 40},
    "thorough": {"runs": 120000, "max_wall": 1500, "chunk": 100},
}
RULE = (
    "one run = one seeded scenario: (abstract) a labelled tree on <=8 nodes or connected graph on <=6 nodes whose link "
    "messages are delivered to 2-3 replicas each in its own order/orientation with duplicates and interleaved path queries, "
    "all-pairs invariants checked after every delivery; or (frames) 3-6 station/orbit-frame/body registrations delivered to "
    "2-3 replica processes in different orders with conversions interleaved. distinct = distinct hash of the per-run sequence "
    "(replica, op kind, fault kind, graph shape class); non-trivial = at least one reorder/duplicate fault fired and >=2 replicas"
)
STATE_MEASURE = "(layer, #nodes, tree|cyclic, canonical degree sequence, #dups) for abstract; (layer, multiset of frame kinds, #replicas) for frames"
PROBES = ["origin_checked", "route_replaced_by_shorter", "dup_link_delivered", "query_on_partial_graph", "disconnected_pair_reported", "builtin_graph_replayed", "frames_convergence_checked", "two_hop_oracle_checked", "frame_of_a_derived_orbit", "user_orientation_followed_both_ways", "local_axes_checked", "origin_checked_at_the_epoch_of_a_tle_orbit", "same_reading_other_scale_checked"]
REAL_VS_STUB = "real: beyond.utils.node.Node, frames/center/orient/stations registries, propagators; stub: none (EOP = zeros by policy 'pass'); model: BFS on explicit adjacency, two-hop composition through pristine nodes"
ASSUMPTIONS = ["tree space on 8 nodes is sampled, not enumerated (thorough tier additionally sweeps all labelled trees on <=5 nodes with all orders)", "numpy/sgp4 are trusted"]
SAMPLED_ONLY = []


# ------------------------------------------------------------------ generate


def _random_tree(rng, k):
    edges = []
    for i in range(1, k):
        edges.append((rng.randrange(i), i))
    # relabel randomly so that insertion is not always parent-first
    perm = list(range(k))
    rng.shuffle(perm)
    return [(perm[a], perm[b]) for a, b in edges]


def gen_plan(rng, tier, i):
    layer = "frames" if rng.random() < 0.12 else "abstract"
    if layer == "abstract":
        return _gen_abstract(rng)
    return _gen_frames(rng, tier)


def _gen_abstract(rng):
    kind = rng.choice(["tree", "tree", "graph", "builtin"])
    if kind == "tree":
        k = rng.randint(2, 8)
        edges = _random_tree(rng, k)
    elif kind == "graph":
        k = rng.randint(3, 6)
        edges = _random_tree(rng, k)
        allp = [(a, b) for a in range(k) for b in range(a + 1, k)]
        have = {tuple(sorted(e)) for e in edges}
        extra = [p for p in allp if p not in have]
        rng.shuffle(extra)
        edges += extra[: rng.randint(1, max(1, min(len(extra), 4)))]
    else:
        k = 0
        edges = []
    nrep = rng.randint(2, 3)
    ops = []
    per_rep = []
    for r in range(nrep):
        msgs = [(a, b) if rng.random() < 0.5 else (b, a) for a, b in edges]
        rng.shuffle(msgs)
        seq = [{"op": "link", "rep": r, "a": a, "b": b} for a, b in msgs]
        # duplicates (F9 dup): re-deliver some links later, maybe flipped
        for a, b in list(msgs):
            if rng.random() < 0.15:
                pos = rng.randint(0, len(seq))
                seq.insert(pos, {"op": "link", "rep": r, "a": b, "b": a, "dup": True} if rng.random() < 0.5 else {"op": "link", "rep": r, "a": a, "b": b, "dup": True})
        # queries on partial graphs
        for _ in range(rng.randint(0, 3)):
            if k >= 2:
                s, t = rng.sample(range(k), 2)
                seq.insert(rng.randint(0, len(seq)), {"op": "query", "rep": r, "s": s, "t": t})
        per_rep.append(seq)
    # interleave replicas
    idx = [0] * nrep
    while any(idx[r] < len(per_rep[r]) for r in range(nrep)):
        r = rng.choice([r for r in range(nrep) if idx[r] < len(per_rep[r])])
        ops.append(per_rep[r][idx[r]])
        idx[r] += 1
    knobs = {"layer": "abstract", "kind": kind, "k": k, "nrep": nrep, "chain_syntax": rng.random() < 0.3}
    if kind == "builtin":
        knobs["graph"] = rng.choice(["forms", "timescales", "orient"])
        knobs["order_seed"] = rng.randrange(1 << 30)
    return {"knobs": knobs, "ops": ops}


_PARENTS = ["ITRF", "PEF", "TIRF"]
_INERTIAL = ["EME2000", "MOD", "TOD", "TEME", "GCRF", "CIRF", "G50"]
_BUILTIN = ["EME2000", "MOD", "TOD", "TEME", "PEF", "ITRF", "TIRF", "CIRF", "GCRF", "G50"]


def _topo_shuffle(rng, msgs):
    """A random order of the messages in which every message comes after the ones it depends on."""
    left = list(range(len(msgs)))
    done = set()
    order = []
    while left:
        ready = [j for j in left if all(d in done for d in msgs[j].get("deps", []))]
        j = rng.choice(ready)
        left.remove(j)
        order.append(j)
        done.add(msgs[j]["name"])
    return order


def _gen_frames(rng, tier="quick"):
    nrep = rng.randint(2, 3)
    nmsg = rng.randint(2, 6) if tier != "thorough" else rng.randint(3, 10)  # thorough: more registrations per scenario
    msgs = []
    used_body = set()
    for j in range(nmsg):
        kind = rng.choice(["station", "station", "orbframe", "orbframe", "body", "frame"])
        if rng.random() < 0.12:
            # a user-registered orientation (a body-fixed frame with a tilted pole): rotation and rate given for the link towards its parent
            ax = [rng.uniform(-1, 1), rng.uniform(-1, 1), rng.uniform(0.2, 1)]
            msgs.append({"op": "orientation", "name": f"UOr{j}", "parent": rng.choice(["EME2000", "TOD", "MOD", "ITRF"]), "axis": ax, "angle": rng.uniform(0, 6.28), "rate": [rng.uniform(-1e-4, 1e-4), rng.uniform(-1e-4, 1e-4), rng.uniform(-1e-4, 1e-4)]})
            continue
        if kind == "body":
            name = rng.choice(["Moon", "Sun"])
            if name in used_body:
                kind = "station"
            else:
                used_body.add(name)
                msgs.append({"op": "body", "name": name})
                continue
        if kind == "frame":
            # a user-registered frame under a new name over an existing orientation
            msgs.append({"op": "frame", "name": f"Frm{j}", "orient": rng.choice(_PARENTS + ["EME2000", "TEME"])})
            continue
        if kind == "station":
            parents = _PARENTS + [m["name"] for m in msgs if m["op"] == "frame" and m["orient"] in _PARENTS]
            parent = rng.choice(parents)
            msg = {
                "op": "station",
                "name": f"Sta{j}",
                "lat": round(rng.uniform(-89, 89), 3),
                "lon": round(rng.uniform(-180, 180), 3),
                "alt": round(rng.uniform(-300, 5000), 1),
                "parent": parent,
            }
            if parent not in _PARENTS:
                msg["deps"] = [parent]
            if rng.random() < 0.15:
                msg["equatorial"] = True  # the station frame keeps the axes of EME2000 (rarely used option)
            msgs.append(msg)
        else:
            msg = {
                "op": "orbframe",
                "name": f"Orb{j}",
                "orient": rng.choice([None, "QSW", "TNW"]),
                "parent": rng.choice(_INERTIAL),
                "frame": rng.choice(_INERTIAL),
                "kep": [
                    rng.uniform(6.8e6, 4.2e7),
                    rng.uniform(0.0005, 0.3),
                    rng.uniform(0.05, 3.0),
                    rng.uniform(0, 6.28),
                    rng.uniform(0, 6.28),
                    rng.uniform(0, 6.28),
                ],
                "src": rng.choice(["kepler", "kepler", "ephem", "static"]),
            }
            # a reference object expressed in a frame which is not centred on the Earth
            stas = [m["name"] for m in msgs if m["op"] == "station"]
            r = rng.random()
            if stas and r < 0.25:
                msg["frame"] = rng.choice(stas)
                msg["src"] = "static"
                msg["orient"] = None
                msg["cart"] = [rng.uniform(-2e4, 2e4), rng.uniform(-2e4, 2e4), rng.uniform(1e3, 3e4), rng.uniform(-10, 10), rng.uniform(-10, 10), rng.uniform(-5, 5)]
                msg["deps"] = [msg["frame"]]
            elif "Moon" in used_body and r < 0.5:
                msg["frame"] = "Moon"
                msg["kep"][0] = rng.uniform(1.9e6, 6e6)
                msg["kep"][1] = rng.uniform(0.001, 0.05)
                msg["src"] = rng.choice(["kepler", "static"])
                msg["deps"] = ["Moon"]
            # a local orbital frame whose parent is a user-registered inertial frame: the frame's name differs from its orientation's
            ufr = [m["name"] for m in msgs if m["op"] == "frame" and m["orient"] in _INERTIAL]
            if ufr and msg["orient"] and "cart" not in msg and msg["frame"] in _INERTIAL and rng.random() < 0.5:
                msg["parent"] = rng.choice(ufr)
                msg["deps"] = list(msg.get("deps", [])) + [msg["parent"]]
            if msg["orient"] and "cart" not in msg and msg["frame"] in _INERTIAL and not msg.get("derive") and rng.random() < 0.2:
                msg["frame"] = rng.choice(_PARENTS)  # a reference object given in an Earth-fixed frame (a precise ephemeris in ITRF) with QSW / TNW axes
            if msg["src"] in ("static", "ephem") and "cart" not in msg and msg["frame"] in _INERTIAL and rng.random() < 0.3:
                msg["ref_form"] = rng.choice(["keplerian", "spherical", "keplerian_mean"])
            if rng.random() < 0.12 and "cart" not in msg and msg["frame"] in _INERTIAL and not msg.get("ref_form"):
                msg["src"] = "tle"  # a TLE-born orbit (mean elements in TLE form, SGP4): conversions are also made at its own epoch
                msg["frame"] = "TEME"
            if msg["orient"] and rng.random() < 0.15:
                msg["orient"] = rng.choice([msg["orient"].lower(), msg["orient"].capitalize()])  # the name of the local orbital frame in another case ("qsw", "Tnw")
            # an orbit derived from one that already gave its name to a frame (a copy of it, moved): a frame of its own under a new name
            bases = [m for m in msgs if m["op"] == "orbframe" and m.get("src") != "ephem" and not m.get("derive")]
            if bases and rng.random() < 0.3:
                b = rng.choice(bases)
                msg = {"op": "orbframe", "name": msg["name"], "orient": rng.choice([None, None, "QSW", "TNW"]), "parent": b["parent"], "frame": b["frame"], "kep": b["kep"], "src": b["src"], "derive": b["name"], "deps": list(b.get("deps", [])) + [b["name"]]}
                if b.get("cart") is not None:
                    msg["cart"] = b["cart"]
                    msg["orient"] = None
            msgs.append(msg)
    # names that differ only by punctuation are different names
    nm_ = [m for m in msgs if m["op"] in ("station", "orbframe") and not any(m["name"] in (x.get("deps") or []) or x.get("derive") == m["name"] or x.get("parent") == m["name"] or x.get("frame") == m["name"] for x in msgs)]
    if len(nm_) >= 2 and rng.random() < 0.3:
        a_, b_ = nm_[0], nm_[1]
        a_["name"], b_["name"] = rng.choice([("Site-1", "Site 1"), ("SAT-1", "SAT.1"), ("Obj A", "Obj_A")])
    names = [m["name"] for m in msgs]
    per_rep = []
    for r in range(nrep):
        order = list(range(len(msgs)))
        if r > 0:
            order = _topo_shuffle(rng, msgs)
        seq = [dict(msgs[j], rep=r) for j in order]
        for _ in range(rng.randint(1, 4)):
            pool = _BUILTIN + names
            s, t = rng.sample(pool, 2)
            seq.insert(rng.randint(0, len(seq)), {"op": "convert", "rep": r, "src": s, "dst": t})
        per_rep.append(seq)
    ops = []
    idx = [0] * nrep
    while any(idx[r] < len(per_rep[r]) for r in range(nrep)):
        r = rng.choice([r for r in range(nrep) if idx[r] < len(per_rep[r])])
        ops.append(per_rep[r][idx[r]])
        idx[r] += 1
    knobs = {
        "layer": "frames",
        "nrep": nrep,
        "date_mjd": rng.uniform(51544.0, 58000.0),
        "probe": [rng.uniform(-1, 1) * 7.2e6, rng.uniform(-1, 1) * 7.2e6, rng.uniform(-1, 1) * 7.2e6, rng.uniform(-7e3, 7e3), rng.uniform(-7e3, 7e3), rng.uniform(-7e3, 7e3)],
    }
    return {"knobs": knobs, "ops": ops}


# -------------------------------------------------------------------- model


def bfs_dist(adj, s):
    d = {s: 0}
    q = deque([s])
    while q:
        u = q.popleft()
        for v in adj.get(u, ()):
            if v not in d:
                d[v] = d[u] + 1
                q.append(v)
    return d


# ----------------------------------------------------------------- abstract

_pkg = None


def _pkg_node():
    """Package copy used for the abstract layer (the Node class holds no global state)."""
    global _pkg
    if _pkg is None:
        _pkg = Node("abstract")
    return _pkg


def check_replica(ctx, rep, nodes, adj, is_tree, where):
    """All-pairs invariants on one replica (clauses 1 and 2)."""
    names = sorted(nodes)
    V = len(names)
    for s in names:
        dist = bfs_dist(adj, s)
        for t in names:
            if s == t:
                continue
            ctx.checks += 1
            sn = nodes[s]
            if t not in dist:
                # unconnected: must be reported as such
                try:
                    p = sn.path(t) if t not in sn.routes else None
                except ValueError:
                    ctx.probe("disconnected_pair_reported")
                    continue
                ctx.violate(
                    "unconnected-reported",
                    {"kind": "no_error_for_unconnected", "layer": "abstract"},
                    f"{where}: rep {rep} {s}->{t} unconnected in the model but path() gave {[x.name for x in p] if p else 'a route'}",
                )
                continue
            # bounded walk over routes (never enter the library's unbounded loop on corrupt state)
            cur = sn
            walk = [s]
            ok = True
            why = ""
            for _ in range(V):
                r = cur.routes.get(t)
                if r is None:
                    ok, why = False, f"dead end at {cur.name}"
                    break
                nxt = r.direction
                if nxt.name not in adj.get(cur.name, ()):
                    ok, why = False, f"hop {cur.name}->{nxt.name} is not an existing link"
                    break
                walk.append(nxt.name)
                cur = nxt
                if cur.name == t:
                    break
            else:
                ok, why = False, "routing loop"
            if ok and cur.name != t:
                ok, why = False, "routing loop"
            if not ok:
                ctx.violate(
                    "valid-chain",
                    {"kind": "invalid_chain", "layer": "abstract", "tree": is_tree},
                    f"{where}: rep {rep} {s}->{t}: {why}; walk={walk}",
                )
                continue
            if len(walk) - 1 != dist[t]:
                ctx.violate(
                    "shortest-chain" if not is_tree else "unique-chain",
                    {"kind": "non_shortest", "layer": "abstract", "tree": is_tree},
                    f"{where}: rep {rep} {s}->{t}: chain {walk} has {len(walk) - 1} links, BFS distance {dist[t]}",
                )
                continue
            # the public API agrees with the walk
            p = [x.name for x in sn.path(t)]
            st = [(a.name, b.name) for a, b in sn.steps(t)]
            if p != walk or st != list(zip(walk[:-1], walk[1:])):
                ctx.violate(
                    "valid-chain",
                    {"kind": "path_steps_disagree", "layer": "abstract"},
                    f"{where}: rep {rep} {s}->{t}: path()={p} steps()={st} walk={walk}",
                )


def _run_abstract(plan, ctx):
    kn = plan["knobs"]
    pkg = _pkg_node()
    NodeCls = pkg.mod("beyond.utils.node").Node
    if kn["kind"] == "builtin":
        return _run_builtin(plan, ctx, pkg, NodeCls)
    nrep = kn["nrep"]
    reps = [dict() for _ in range(nrep)]  # name -> Node
    adjs = [dict() for _ in range(nrep)]
    delivered = [0] * nrep
    # per replica: is the *final* graph it will have received acyclic?  (the partial graph of a
    # tree is a forest, where chains are unique as well)
    rep_edges = [{tuple(sorted((o["a"], o["b"]))) for o in plan["ops"] if o["op"] == "link" and o["rep"] % nrep == r} for r in range(nrep)]
    rep_tree = [_is_forest(e) for e in rep_edges]
    all_edges = max(rep_edges, key=len) if rep_edges else set()
    k = len({x for e in all_edges for x in e})
    degseq = tuple(sorted(Counter_deg(all_edges).values()))
    ctx.state("abstract", k, "tree" if _is_forest(all_edges) else "cyclic", degseq)
    for o in plan["ops"]:
        r = o["rep"] % nrep
        nodes, adj = reps[r], adjs[r]
        is_tree = rep_tree[r]
        if o["op"] == "link":
            a, b = f"N{o['a']}", f"N{o['b']}"
            for x in (a, b):
                if x not in nodes:
                    nodes[x] = NodeCls(x)
                    adj.setdefault(x, set())
            before = {s: {t: rt.steps for t, rt in n.routes.items()} for s, n in nodes.items()}
            dup = b in adj[a]
            res = nodes[a] + nodes[b]
            if res is not nodes[b]:
                ctx.violate("valid-chain", {"kind": "add_returns_other", "layer": "abstract"}, "a + b must return b (chaining syntax)")
            adj[a].add(b)
            adj[b].add(a)
            delivered[r] += 1
            if dup:
                ctx.fault("msg_dup")
                ctx.probe("dup_link_delivered")
            ctx.fault("msg_reorder") if r > 0 else None
            ctx.sig.append((r, "link", "dup" if dup else ""))
            for s, n in nodes.items():
                for t, rt in n.routes.items():
                    if t in before.get(s, {}) and rt.steps < before[s][t]:
                        ctx.probe("route_replaced_by_shorter")
                        break
            ctx.ev(f"rep{r}", "link", a, b, "dup" if dup else "", len(nodes))
            check_replica(ctx, r, nodes, adj, is_tree, f"after link {a}+{b} (#{delivered[r]})")
            ctx.ops_done += 1
        elif o["op"] == "query":
            s, t = f"N{o['s']}", f"N{o['t']}"
            ctx.sig.append((r, "query", ""))
            if s in nodes:
                ctx.probe("query_on_partial_graph")
                dist = bfs_dist(adj, s)
                try:
                    p = None
                    # guard against loops with the bounded walk first
                    if t in nodes[s].routes:
                        check_replica(ctx, r, nodes, adj, is_tree, f"query {s}->{t}")
                        p = [x.name for x in nodes[s].path(t)]
                    else:
                        nodes[s].path(t)
                    out = ",".join(p) if p else "?"
                except ValueError:
                    out = "ValueError"
                    if t in dist and t != s:
                        ctx.violate("valid-chain", {"kind": "connected_reported_unknown", "layer": "abstract"}, f"rep {r} {s}->{t} connected in the model but path() raised ValueError")
                ctx.ev(f"rep{r}", "query", s, t, out)
            ctx.ops_done += 1
    # convergence: same final link set on all replicas -> same reachability and (tree) same chains
    full = [r for r in range(nrep) if rep_edges[r] == all_edges and all_edges]
    is_tree = _is_forest(all_edges)
    if len(full) >= 2:
        ctx.nontrivial = bool(ctx.faults.get("msg_reorder") or ctx.faults.get("msg_dup"))
        ref = full[0]
        for r in full[1:]:
            for s in reps[ref]:
                for t in reps[ref]:
                    if s == t or t not in reps[ref][s].routes:
                        continue
                    ctx.checks += 1
                    p0 = [x.name for x in reps[ref][s].path(t)]
                    p1 = [x.name for x in reps[r][s].path(t)]
                    if len(p0) != len(p1) or (is_tree and p0 != p1):
                        ctx.violate(
                            "convergence",
                            {"kind": "replicas_diverge", "layer": "abstract", "tree": is_tree},
                            f"replicas {ref} and {r} received the same links in different orders but route {s}->{t} as {p0} vs {p1}",
                        )
        ctx.ev("converged", len(full), fhex(float(len(all_edges))))


def _is_forest(edges):
    parent = {}

    def find(x):
        while parent.setdefault(x, x) != x:
            parent[x] = parent[parent[x]]
            x = parent[x]
        return x

    for a, b in edges:
        ra, rb = find(a), find(b)
        if ra == rb:
            return False
        parent[ra] = rb
    return True


def Counter_deg(edges):
    d = {}
    for a, b in edges:
        d[a] = d.get(a, 0) + 1
        d[b] = d.get(b, 0) + 1
    return d


def _run_builtin(plan, ctx, pkg, NodeCls):
    """The built-in graphs (forms, time scales, orientations): check the real
    instances, then replay their links in a seeded order on fresh Node objects."""
    import random

    kn = plan["knobs"]
    which = kn["graph"]
    with pkg:
        if which == "forms":
            root = pkg.mod("beyond.orbits.forms").CART
        elif which == "timescales":
            root = pkg.mod("beyond.dates.date").TAI
        else:
            root = pkg.mod("beyond.frames.orient").EME2000
    # collect the component of the real instance
    seen = {root.name: root}
    q = deque([root])
    while q:
        u = q.popleft()
        for v in u.neighbors:
            if v.name not in seen:
                seen[v.name] = v
                q.append(v)
    if which == "orient":
        # only the ten built-in orientations (a private package copy used for the abstract layer registers nothing else)
        pass
    adj = {n: {v.name for v in node.neighbors} for n, node in seen.items()}
    edges = sorted({tuple(sorted((a, b))) for a in adj for b in adj[a]})
    is_tree = len(edges) == len(seen) - 1
    ctx.state("builtin", which, len(seen), "tree" if is_tree else "cyclic")
    if not is_tree:
        ctx.violate("unique-chain", {"kind": "builtin_graph_not_tree", "graph": which}, f"built-in graph {which} is not a tree: {edges}")
    ctx.ev("builtin", which, len(seen), len(edges))
    check_replica(ctx, "builtin", seen, adj, is_tree, f"built-in {which} graph")
    rng = random.Random(kn["order_seed"])  # plan-recorded seed: replay is still a pure function of the plan
    for r in range(2):
        order = list(edges)
        rng.shuffle(order)
        nodes, radj = {}, {}
        for a, b in order:
            if rng.random() < 0.5:
                a, b = b, a
            for x in (a, b):
                if x not in nodes:
                    nodes[x] = NodeCls(x)
                    radj[x] = set()
            nodes[a] + nodes[b]
            radj[a].add(b)
            radj[b].add(a)
            ctx.fault("msg_reorder")
            check_replica(ctx, r, nodes, radj, is_tree, f"replayed {which} after {a}+{b}")
        for s in nodes:
            for t in nodes:
                if s != t:
                    ctx.checks += 1
                    p0 = [x.name for x in seen[s].path(t)]
                    p1 = [x.name for x in nodes[s].path(t)]
                    if p0 != p1:
                        ctx.violate("convergence", {"kind": "replicas_diverge", "layer": "builtin", "graph": which}, f"{which}: built-in routes {s}->{t} as {p0}, a re-ordered replay as {p1}")
        ctx.sig.append((r, "replay", which))
    ctx.probe("builtin_graph_replayed")
    ctx.nontrivial = True
    ctx.ops_done = ctx.ops_planned


# ------------------------------------------------------------------- frames


def _mk_date(node, mjd, scale="UTC"):
    return node.Date(float(mjd), scale=scale)


def _ref_object(node, msg, kn, refs=None, lookup=None):
    """The reference object (orbit, ephemeris or static state) an orbit-attached frame is built from.  With "derive" it is a moved
    copy of the object that was registered under that name on this node (refs), built afresh when the node never saw it."""
    if msg.get("derive"):
        base = (refs or {}).get(msg["derive"])
        if base is None:
            base = _ref_object(node, dict((lookup or {}).get(msg["derive"], {k: v for k, v in msg.items() if k != "derive"}), derive=None), kn)
        new = base.copy()
        if new.form.name == "keplerian":
            new[0] = float(new[0]) * 1.03
            new[4] = float(new[4]) + 0.1
        else:
            new[:3] = np.array(new[:3], dtype=float) * 1.01
        return new
    date = _mk_date(node, kn["date_mjd"])
    Kepler = node.mod("beyond.propagators.kepler").Kepler
    if msg.get("cart") is not None:
        return node.StateVector(msg["cart"], date, "cartesian", msg["frame"])
    if msg["src"] == "tle":
        from sim import world as _w

        return node.Tle(_w.tle_text("iss")).orbit()
    orb = node.Orbit(msg["kep"], date, "keplerian", msg["frame"], Kepler())
    if msg["src"] == "ephem":
        td = node.timedelta
        eph = orb.ephem(start=date - td(minutes=30), stop=td(minutes=60), step=td(minutes=3))
        if msg.get("ref_form"):
            eph.form = msg["ref_form"]  # an ephemeris held in another form than cartesian
        return eph
    if msg["src"] == "static":
        sv = orb.copy(form="cartesian").as_statevector()
        if msg.get("ref_form"):
            sv.form = msg["ref_form"]  # the reference state is held in keplerian / spherical form
        return sv
    return orb


def _register(node, msg, kn, refs=None, lookup=None):
    """Deliver one registration message on a node (inside `with node`).  refs keeps the reference objects handed to orbit2frame, by
    frame name (a caller keeps its orbits)."""
    if msg["op"] == "station":
        st = node.mod("beyond.frames.stations")
        parent = node.frames.get_frame(msg["parent"])
        kw_ = {"equatorial": True} if msg.get("equatorial") else {}
        return st.create_station(msg["name"], (msg["lat"], msg["lon"], msg["alt"]), parent_frame=parent, **kw_)
    if msg["op"] == "body":
        ss = node.mod("beyond.env.solarsystem")
        return ss.get_frame(msg["name"])
    if msg["op"] == "frame":
        orient = node.mod("beyond.frames.orient")
        center = node.mod("beyond.frames.center")
        return node.frames.Frame(msg["name"], getattr(orient, msg["orient"]), center.Earth)
    if msg["op"] == "orientation":
        orient = node.mod("beyond.frames.orient")
        center = node.mod("beyond.frames.center")
        a = np.array(msg["axis"], dtype=float)
        a = a / np.linalg.norm(a)
        K = np.array([[0, -a[2], a[1]], [a[2], 0, -a[0]], [-a[1], a[0], 0]])
        R = np.eye(3) + np.sin(msg["angle"]) * K + (1 - np.cos(msg["angle"])) * (K @ K)
        rate = np.array(msg["rate"], dtype=float)
        new = orient.Orientation(msg["name"])
        parent = getattr(orient, msg["parent"])
        setattr(orient.Orientation, f"{msg['name']}_to_{parent.name}", lambda self_, date, _R=R, _w=rate: (_R.copy(), _w.copy()))
        parent + new
        return node.frames.Frame(msg["name"], new, center.Earth)
    if msg["op"] == "orbframe":
        ref = _ref_object(node, msg, kn, refs, lookup)
        if refs is not None:
            refs[msg["name"]] = ref
        kw = {"parent": node.frames.get_frame(msg["parent"])}
        if msg["orient"]:
            kw["orientation"] = msg["orient"]
        return node.frames.orbit2frame(msg["name"], ref, **kw)
    raise ValueError(msg["op"])


def _convert(node, kn, src, dst, scale="UTC"):
    date = _mk_date(node, kn["date_mjd"], scale)
    sv = node.StateVector(kn["probe"], date, "cartesian", src)
    out = sv.copy(frame=dst)
    return np.array(out.base if out.base is not None else out, dtype=float)


def _run_frames(plan, ctx):
    kn = plan["knobs"]
    nrep = kn["nrep"]
    nodes = [Node(f"rep{r}") for r in range(nrep)]
    for n in nodes:
        with n:
            n.config.update({"eop": {"missing_policy": "pass"}})
    registered = [[] for _ in range(nrep)]  # names, in delivery order
    refs = [dict() for _ in range(nrep)]  # reference objects handed to orbit2frame, by frame name
    msgs_by_name = {}
    memo = [dict() for _ in range(nrep)]  # (src,dst) -> bytes of first result
    kinds = []

    def conv(r, s, t, where):
        ctx.checks += 1
        with nodes[r]:
            try:
                v = _convert(nodes[r], kn, s, t)
            except Exception as e:  # noqa
                v = f"{type(e).__name__}"
        key = (s, t)
        b = v if isinstance(v, str) else v.tobytes()
        if key in memo[r]:
            if memo[r][key] != b:
                old = memo[r][key]
                ctx.violate(
                    "non-interference",
                    {"kind": "conversion_changed_by_registration", "layer": "frames"},
                    f"{where}: rep {r} conversion {s}->{t} changed after registering other frames: {old if isinstance(old, str) else np.frombuffer(old)} -> {v}",
                )
        else:
            memo[r][key] = b
        return v

    for o in plan["ops"]:
        r = o["rep"] % nrep
        if o["op"] in ("station", "orbframe", "body", "frame", "orientation"):
            if o["name"] in registered[r]:
                continue  # only *new* names are covered by the statement
            if any(d not in registered[r] for d in o.get("deps", [])):
                continue  # (a minimised plan may have lost the message this one depends on)
            existing = _BUILTIN + registered[r]
            # snapshot a sample of conversions between frames that already exist
            pairs = [("EME2000", "ITRF"), ("TIRF", "G50"), ("PEF", "MOD")] + [(a, b) for a in existing[-4:] + existing[:3] for b in existing[-4:] + existing[:3] if a != b][:20]
            for a, b in pairs:
                conv(r, a, b, "pre-registration snapshot")
            with nodes[r]:
                try:
                    _register(nodes[r], o, kn, refs[r], msgs_by_name)
                except Exception as e:
                    ctx.violate("valid-chain", {"kind": "registration_failed", "layer": "frames", "op": o["op"]}, f"rep {r}: registering {o} raised {type(e).__name__}: {e}")
                    continue
            registered[r].append(o["name"])
            msgs_by_name[o["name"]] = {k: v for k, v in o.items() if k not in ("rep",)}
            kinds.append(o["op"])
            if r > 0:
                ctx.fault("msg_reorder")
            ctx.sig.append((r, o["op"], o.get("orient") or o.get("parent") or ""))
            ctx.ev(f"rep{r}", "register", o["op"], o["name"])
            for a, b in pairs:
                conv(r, a, b, f"after registering {o['name']}")
            if o["op"] == "orientation":
                # a link carrying a rotation and a rate is followed both ways: there and back is the identity
                ctx.checks += 1
                ctx.probe("user_orientation_followed_both_ways")
                with nodes[r]:
                    date = _mk_date(nodes[r], kn["date_mjd"])
                    sv0 = nodes[r].StateVector(kn["probe"], date, "cartesian", o["parent"])
                    try:
                        back = np.array(sv0.copy(frame=o["name"]).copy(frame=o["parent"]), dtype=float)
                        there = np.array(nodes[r].StateVector(kn["probe"], date, "cartesian", o["name"]).copy(frame=o["parent"]).copy(frame=o["name"]), dtype=float)
                        err = None
                    except Exception as e:  # noqa
                        err = e
                if err is not None:
                    ctx.violate("valid-chain", {"kind": "connected_conversion_failed", "layer": "frames"}, f"rep {r}: converting between {o['parent']} and the user-registered orientation {o['name']} raised {type(err).__name__}: {err}")
                else:
                    p0 = np.array(kn["probe"], dtype=float)
                    for got_, what_ in ((back, f"{o['parent']} -> {o['name']} -> {o['parent']}"), (there, f"{o['name']} -> {o['parent']} -> {o['name']}")):
                        if np.linalg.norm(got_[:3] - p0[:3]) > 1e-6 + 1e-12 * np.linalg.norm(p0[:3]) or np.linalg.norm(got_[3:] - p0[3:]) > 1e-9 + 1e-12 * np.linalg.norm(p0[3:]) + 1e-12 * np.linalg.norm(p0[:3]):
                            ctx.violate("valid-chain", {"kind": "there_and_back_not_identity", "layer": "frames"}, f"rep {r}: {what_} moves the probe by {np.linalg.norm(got_[:3] - p0[:3]):.3e} m / {np.linalg.norm(got_[3:] - p0[3:]):.3e} m/s (link with a rotation and a rate, followed both ways)")
                            break
            if o["op"] == "orbframe" and o.get("orient") and not o.get("derive"):
                # QSW / TNW: the third axis is the direction of the angular momentum of the object about the centre of the parent
                # frame (own computation from the object's position and velocity expressed in the parent frame)
                with nodes[r]:
                    ref = _ref_object(nodes[r], o, kn)
                    date = _mk_date(nodes[r], kn["date_mjd"])
                    st = ref.propagate(date) if hasattr(ref, "propagate") else ref
                    try:
                        rv = np.array(st.copy(form="cartesian", frame=o["parent"]), dtype=float)
                        wax = np.cross(rv[:3], rv[3:])
                        wax = wax / np.linalg.norm(wax)
                        pr = np.concatenate([rv[:3] + 1000.0 * wax, rv[3:]])
                        inw = np.array(nodes[r].StateVector(pr, date, "cartesian", o["parent"]).copy(frame=o["name"]), dtype=float)
                        errw = None
                    except Exception as e:  # noqa
                        errw = e
                ctx.checks += 1
                ctx.probe("local_axes_checked")
                if errw is None and np.linalg.norm(inw[:3] - np.array([0.0, 0.0, 1000.0])) > 1e-3:
                    ctx.violate("valid-chain", {"kind": "local_axes_not_those_of_the_object", "layer": "frames", "ref_frame_kind": "builtin" if o["frame"] in _BUILTIN else "registered"}, f"rep {r}: frame {o['name']} ({o['orient']}, reference given in {o['frame']}, parent {o['parent']}): a point 1000 m along the angular momentum of the object is seen at {inw[:3]} instead of (0, 0, 1000)")
            if o["op"] == "orbframe":
                # the frame attached to an object has that object at its origin: the link goes to the centre
                # of the frame the object is expressed in, whatever was registered before
                ctx.checks += 1
                ctx.probe("origin_checked")
                with nodes[r]:
                    ref = refs[r].get(o["name"]) if o.get("derive") else _ref_object(nodes[r], o, kn)
                    if o.get("derive"):
                        ctx.probe("frame_of_a_derived_orbit")
                    date = _mk_date(nodes[r], kn["date_mjd"])
                    st = ref.propagate(date) if hasattr(ref, "propagate") else ref
                    try:
                        at = np.array(st.copy(form="cartesian", frame=o["name"]), dtype=float)
                        scale = float(np.linalg.norm(np.array(st.copy(form="cartesian"), dtype=float)[:3]))
                        if o.get("src") == "tle":
                            # ... also at the very epoch of the orbit the frame is attached to
                            st0 = ref.propagate(ref.date)
                            at0 = np.array(st0.copy(form="cartesian", frame=o["name"]), dtype=float)
                            if np.linalg.norm(at0[:3]) > np.linalg.norm(at[:3]):
                                at = at0
                            ctx.probe("origin_checked_at_the_epoch_of_a_tle_orbit")
                        err = None
                    except Exception as e:  # noqa
                        at, err = None, e
                if err is not None:
                    ctx.violate("valid-chain", {"kind": "connected_conversion_failed", "layer": "frames"}, f"rep {r}: converting the reference object of {o['name']} into its own frame raised {type(err).__name__}: {err}")
                elif np.linalg.norm(at[:3]) > 1e-6 + 1e-9 * scale:
                    ctx.violate(
                        "valid-chain",
                        {"kind": "frame_origin_not_on_its_object", "layer": "frames", "ref_frame_kind": "builtin" if o["frame"] in _BUILTIN else "registered"},
                        f"rep {r}: frame {o['name']} is attached to an object given in frame {o['frame']}, but that object is {np.linalg.norm(at[:3]):.3e} m away from the origin of its own frame",
                    )
            ctx.ops_done += 1
        elif o["op"] == "convert":
            s, t = o["src"], o["dst"]
            known = _BUILTIN + registered[r]
            ctx.sig.append((r, "convert", ""))
            if s in known and t in known:
                v = conv(r, s, t, "interleaved conversion")
                if isinstance(v, str):
                    ctx.violate("valid-chain", {"kind": "connected_conversion_failed", "layer": "frames"}, f"rep {r}: {s}->{t} both registered but conversion raised {v}")
                ctx.ev(f"rep{r}", "convert", s, t, fhex(v) if not isinstance(v, str) else v)
            else:
                # at least one frame unknown on this replica (yet): must be reported as such
                with nodes[r]:
                    try:
                        _convert(nodes[r], kn, s, t)
                        res = "ok"
                    except Exception as e:
                        res = type(e).__name__
                ctx.checks += 1
                if res not in ("UnknownFrameError", "ValueError"):
                    ctx.violate("unconnected-reported", {"kind": "no_error_for_unconnected", "layer": "frames"}, f"rep {r}: {s}->{t} with an unregistered frame gave {res}")
                else:
                    ctx.probe("disconnected_pair_reported")
                ctx.ev(f"rep{r}", "convert-unknown", s, t, res)
            ctx.ops_done += 1

    # convergence across replicas that received everything
    allnames = sorted(msgs_by_name)
    full = [r for r in range(nrep) if sorted(registered[r]) == allnames]
    ctx.state("frames", tuple(sorted(kinds)), nrep)
    if len(full) >= 2 and allnames:
        ctx.nontrivial = True
        ctx.probe("frames_convergence_checked")
        pool = allnames + ["EME2000", "ITRF", "TEME", "CIRF"]
        pairs = [(a, b) for a in pool for b in pool if a != b and (a in allnames or b in allnames)]
        vals = {}
        for r in full:
            for a, b in pairs:
                v = conv(r, a, b, "final convergence")
                if isinstance(v, str):
                    ctx.violate("valid-chain", {"kind": "connected_conversion_failed", "layer": "frames"}, f"rep {r}: {a}->{b} raised {v} although both frames are registered")
                    continue
                if (a, b) in vals and vals[(a, b)][1].tobytes() != v.tobytes():
                    r0, v0 = vals[(a, b)]
                    ctx.violate(
                        "convergence",
                        {"kind": "replicas_diverge", "layer": "frames"},
                        f"{a}->{b}: replica {r0} gives {v0}, replica {r} (other registration order) gives {v}",
                    )
                vals.setdefault((a, b), (r, v))
        ctx.ev("converged", len(full), len(pairs))
        # independent oracle: two hops through EME2000 on pristine nodes that registered only one of the frames
        oracle = {}

        def pristine(name, tag=""):
            name_ = name
            name = (name_, tag)
            if name not in oracle:
                n = Node(f"oracle-{name_}{tag}")
                with n:
                    n.config.update({"eop": {"missing_policy": "pass"}})

                    prefs = {}

                    def reg(nm):
                        if nm in msgs_by_name:
                            for d in msgs_by_name[nm].get("deps", []):
                                reg(d)
                            _register(n, msgs_by_name[nm], kn, prefs, msgs_by_name)

                    reg(name_)
                oracle[name] = n
            return oracle[name]

        sample = [p for p in pairs if p[0] in allnames and p[1] in allnames][:3] + [p for p in pairs if (p[0] in allnames) != (p[1] in allnames)][:3]
        for a, b in sample:
            if (a, b) not in vals:
                continue
            na, nb = pristine(a), pristine(b)
            with na:
                date = _mk_date(na, kn["date_mjd"])
                mid = np.array(na.StateVector(kn["probe"], date, "cartesian", a).copy(frame="EME2000"), dtype=float)
            with nb:
                date = _mk_date(nb, kn["date_mjd"])
                exp = np.array(nb.StateVector(mid, date, "cartesian", "EME2000").copy(frame=b), dtype=float)
            got = vals[(a, b)][1]
            scale = max(np.linalg.norm(mid[:3]), np.linalg.norm(got[:3]), 1.0)
            vscale = max(np.linalg.norm(mid[3:]), np.linalg.norm(got[3:]), 1.0)
            dp = np.linalg.norm(got[:3] - exp[:3])
            dv = np.linalg.norm(got[3:] - exp[3:])
            ctx.checks += 1
            ctx.probe("two_hop_oracle_checked")
            if dp > 1e-6 + 1e-11 * scale or dv > 1e-9 + 1e-11 * vscale:
                ctx.violate(
                    "valid-chain",
                    {"kind": "differs_from_single_link_composition", "layer": "frames"},
                    f"{a}->{b}: routed conversion differs from the composition {a}->EME2000->{b} on pristine nodes by {dp:.3e} m, {dv:.3e} m/s",
                )
        # the same clock reading under another time-scale label is another instant (up to a minute apart): a replica that has just served
        # the UTC date serves it like a process that never saw the UTC one
        for a, b in sample[:2]:
            if (a, b) not in vals:
                continue
            for sc in ("TAI", "TT"):
                r0 = full[0]
                with nodes[r0]:
                    try:
                        got = _convert(nodes[r0], kn, a, b, sc)
                    except Exception as e:  # noqa
                        got = None
                if got is None:
                    continue
                na, nb = pristine(a, sc), pristine(b, sc)
                with na:
                    mid = np.array(na.StateVector(kn["probe"], _mk_date(na, kn["date_mjd"], sc), "cartesian", a).copy(frame="EME2000"), dtype=float)
                with nb:
                    exp = np.array(nb.StateVector(mid, _mk_date(nb, kn["date_mjd"], sc), "cartesian", "EME2000").copy(frame=b), dtype=float)
                scale = max(np.linalg.norm(mid[:3]), np.linalg.norm(got[:3]), 1.0)
                vscale = max(np.linalg.norm(mid[3:]), np.linalg.norm(got[3:]), 1.0)
                dp = np.linalg.norm(got[:3] - exp[:3])
                dv = np.linalg.norm(got[3:] - exp[3:])
                ctx.checks += 1
                ctx.probe("same_reading_other_scale_checked")
                if dp > 1e-6 + 1e-11 * scale or dv > 1e-9 + 1e-11 * vscale:
                    ctx.violate("valid-chain", {"kind": "depends_on_an_earlier_conversion", "layer": "frames"}, f"{a}->{b} at the same clock reading labelled {sc}, after the UTC conversions: differs from pristine processes that only served the {sc} date by {dp:.3e} m, {dv:.3e} m/s")
                    return


def run_plan(plan, ctx):
    if plan["knobs"]["layer"] == "abstract":
        _run_abstract(plan, ctx)
    else:
        _run_frames(plan, ctx)


def simplify(plan):
    """Property-specific shrinking: fewer replicas, drop queries."""
    kn = plan["knobs"]
    ops = plan["ops"]
    if kn.get("nrep", 1) > 1:
        for r in range(kn["nrep"]):
            cand_ops = [o for o in ops if o.get("rep") != r]
            if cand_ops and len(cand_ops) < len(ops):
                yield dict(plan, ops=cand_ops)
    q = [o for o in ops if o["op"] not in ("query", "convert")]
    if len(q) < len(ops):
        yield dict(plan, ops=q)
