"""Scheduler engine shared by C08 (iteration contract / call-history independence)
and C10 (event detection): lazily-consumed library iterators are the tasks, the
plan decides which task steps next, which is cancelled (close) or abandoned,
and which atomic calls land between two steps.

Time is in integer milliseconds relative to the epoch of the object concerned,
so that the date model is exact and independent of the library."""

import numpy as np

from sim.node import Node, SimDisk, load_real_eop
from sim import world
from sim.core import fhex

ANALYTIC = ("sgp4", "kepler", "j2", "none", "cw")

# tolerance of the value oracle for the numerical propagator (Lagrange re-sampling of the
# integrated grid; calibrated on the unchanged tree, see DESIGN.md 5.2): metres, metres/second
NUM_TOL = (5e-3, 5e-6)  # placeholder identity object; the real bound depends on integrator and step, see num_tol()
NUM_TOL_TABLE = {
    # (method, step_s): (metres, metres/second) = 10 x the maxima observed over 1500 calibration runs on the unchanged tree
    ("rk4", 30): (10.0, 2e-2),
    ("rk4", 60): (200.0, 0.3),
    ("rk4", 120): (2e4, 30.0),
}
NUM_TOL_ADAPTIVE = (300.0, 0.5)


def num_tol(spec):
    return NUM_TOL_TABLE.get((spec.get("method"), spec.get("step_s")), NUM_TOL_ADAPTIVE)

EPHEM_NODE_TOL = (1e-6, 1e-9)


class Task:
    def __init__(self, tid, obj_idx, call):
        self.tid = tid
        self.obj = obj_idx
        self.call = call
        self.gen = None
        self.state = "created"
        self.expected = None  # list of ms offsets of the samples the model expects
        self.raises_after = None  # exception the model expects after them
        self.n_samples = 0
        self.items = []  # (is_event, offset_ms, label, values)
        self.last_item_obj = None
        self.lidx = []
        self.use_stream = False
        self.ostream = None
        self.stepped = False
        self.filtering = False  # station.visibility(): below-horizon samples are filtered out
        self.cursor = 0
        self.skipped = []
        self.sample_idx = []  # index in `expected` of each yielded sample
        self.station = None
        self.samples = []  # sample states (library objects) for the event oracles
        self.events = []
        self.rebound = False  # another orbit sharing the propagator was used since start
        self.cursor_shared = False  # another task touched the same ephemeris cursor since start
        self.listeners = []
        self.lshared_live = False  # a listener of this task was used by another live task since start


# --------------------------------------------------------------------- model


def model_orbit_iter(call):
    """Expected sample offsets (ms, relative to the orbit epoch) of Orbit.iter()."""
    if call.get("dates") is not None:
        return list(call["dates"]), None
    if call.get("daterange") is not None:
        s, e, st, inc = call["daterange"]
        return model_range(s, e, st, inc)
    start = call.get("start_ms")
    start = 0 if start is None else start
    stop = call["stop_ms"] if call.get("stop_abs", True) else start + call["stop_ms"]
    step = call["step_ms"]
    if start > stop and step > 0:
        step = -step
    return model_range(start, stop, step, True)


def model_range(start, stop, step, inclusive):
    sign = 1 if (stop - start) >= 0 else -1
    if step == 0 or (1 if step >= 0 else -1) != sign:
        return [], "ValueError"
    out = []
    d = start
    if step > 0:
        while d < stop or (inclusive and d == stop):
            out.append(d)
            d += step
    else:
        while d > stop or (inclusive and d == stop):
            out.append(d)
            d += step
    return out, None


def model_ephem_iter(call, table, order):
    """table: sorted ms offsets of the stored points relative to ephem.start (table[0] == 0).
    Returns (expected sample offsets, exception raised after them or None)."""
    first, last = table[0], table[-1]
    can_interp = len(table) >= order
    if call.get("dates") is not None:
        out = []
        for d in call["dates"]:
            if d < first or d > last or not can_interp:
                return out, "ValueError"  # refused, not extrapolated (lazily: at that date)
            out.append(d)
        return out, None
    strict = call.get("strict", True)
    start = call.get("start_ms")
    real_start = None
    if start is None:
        start = first
    elif start < first:
        if strict:
            return [], "ValueError"
        real_start = first
    stop = call.get("stop_ms")
    backward = False
    if stop is None:
        stop = last
    else:
        if not call.get("stop_abs", True):
            stop = start + stop
        # the direction is the one of the *requested* range (before any clamping to the table)
        backward = stop < start
        if stop > last:
            if strict:
                return [], "ValueError"
            stop = last
    if real_start is not None:
        start = real_start
    step = call.get("step_ms")
    if step is None:
        if backward:
            return [d for d in reversed(table) if stop <= d <= start], None
        return [d for d in table if start <= d <= stop], None
    if backward:
        # backward range over an ephemeris (the statement covers forward and backward ranges)
        dates, exc = model_range(start, stop, -abs(step), True)
    elif step <= 0:
        return [], "ValueError"
    elif start > stop:
        return [], None  # a forward request entirely outside the table, clamped (strict=False): nothing to yield
    else:
        dates, exc = model_range(start, stop, step, True)
    # dates outside the table are refused (lazily: when the iteration reaches them), not extrapolated
    for k, d in enumerate(dates):
        if d < first or d > last:
            return dates[:k], "ValueError"
    if dates and not can_interp:
        return [], "ValueError"
    return dates, exc


# -------------------------------------------------------------------- engine


class Sim:
    def __init__(self, plan, ctx, prop, hooks=None):
        self.plan = plan
        self.ctx = ctx
        self.prop = prop
        self.hooks = hooks
        kn = plan["knobs"]
        self.kn = kn
        disk = SimDisk()
        self.real_eop = bool(kn.get("real_eop"))
        if self.real_eop:
            load_real_eop(disk)
        self.node = Node("sys", disk=disk)
        self.oracle = Node("oracle", disk=disk)
        for n in (self.node, self.oracle):
            with n:
                cfg = {"eop": {"missing_policy": "pass"}}
                if self.real_eop:
                    cfg["eop"]["folder"] = "/eop"
                n.config.update(cfg)
                # B2 knobs are configuration, identical on both nodes
                if kn.get("ephem_order"):
                    n.Ephem.DEFAULT_ORDER = kn["ephem_order"]
                if kn.get("eps_bisect_us"):
                    n.mod("beyond.propagators.listeners").Speaker._eps_bisect = n.timedelta(microseconds=kn["eps_bisect_us"])
        self.specs = [dict(sp) for sp in kn["pool"]]  # a copy: set_order updates the description of an ephemeris, the plan stays as recorded
        self.pool = []
        self.props = []
        self.stations = []
        self.ostations = []
        self.listeners = []
        self.tasks = {}
        self.epoch = []
        self.otable = {}
        self.ofresh_ephem = {}
        self.digests = []
        with self.node:
            for s in kn.get("stations", []):
                self.stations.append(world.build_station(self.node, s))
            for i, spec in enumerate(self.specs):
                shared = None
                if spec.get("share") is not None and spec["share"] < len(self.pool):
                    shared = self.pool[spec["share"]].propagator
                obj = world.build_orbit(self.node, spec, propagator=shared)
                self.pool.append(obj)
                self.epoch.append(world.epoch_of(obj))
                self.digests.append(world.digest_obj(obj))
            for ls in kn.get("listeners", []):
                self.listeners.append(world.build_listener(self.node, ls, self.stations))
        with self.oracle:
            for s in kn.get("stations", []):
                self.ostations.append(world.build_station(self.oracle, s))
        self._ostate = {}
        with self.node:
            # list objects owned by the caller and handed to several calls (station.visibility(listeners=...))
            self.caller_lists = [[self.listeners[j % len(self.listeners)] for j in cl] if self.listeners else [] for cl in kn.get("caller_lists", [])]
        self.listener_users = {}  # listener idx -> set of live task ids using it
        ctx.clock_seen(self.node.clock.now)

    # ----------------------------------------------------------- helpers
    def kind(self, i):
        return self.specs[i]["kind"]

    def off_ms(self, i, date):
        """Offset of a library date relative to pool object i's epoch, in ms (float)."""
        return (date - self.epoch[i]).total_seconds() * 1000.0

    def date_at(self, node, i, ms, epoch=None):
        e = epoch if epoch is not None else self.epoch[i]
        return e + node.timedelta(milliseconds=ms)

    def oracle_obj(self, i):
        """Fresh equivalent of pool object i on the oracle node (inside `with oracle`)."""
        spec = dict(self.specs[i])
        spec.pop("share", None)
        if spec["kind"] == "ephem":
            if i not in self.ofresh_ephem:
                self.ofresh_ephem[i] = world.build_orbit(self.oracle, spec)
            return self.ofresh_ephem[i]
        return world.build_orbit(self.oracle, spec)

    def ostate(self, i, ms):
        """State of pool object i at epoch+ms by a direct propagation on the pristine node (cached;
        must be used inside `with self.oracle`)."""
        key = (i, ms)
        if key not in self._ostate:
            o = self.oracle_obj(i)
            ep = world.epoch_of(o)
            self._ostate[key] = o.propagate(ep + self.oracle.timedelta(milliseconds=ms))
        return self._ostate[key]

    def oracle_propagate(self, i, ms):
        """Direct propagation on the pristine node to a date that an iteration has just yielded (or that lies inside the model
        range): it has to work - "each yielded state being equal to what a direct propagation to that date returns"."""
        with self.oracle:
            try:
                r = self.ostate(i, ms)
            except Exception as e:  # noqa
                self.ctx.violate(
                    "value-equals-direct-propagation",
                    self.fp(kind="direct_propagation_fails", prop_kind=self.kind(i), exc=type(e).__name__),
                    f"a direct propagation of pool object {i} ({self.kind(i)}) to epoch{ms:+.3f} ms on a pristine node raised {type(e).__name__}: {e}, although an iteration yields that date",
                )
                raise
            return world.vec(r), r.form.name, r.frame.name

    def oracle_stored(self, i, ms):
        """The stored point of the oracle's fresh copy of ephemeris i dated start+ms."""
        tab = self.table_ms(i)
        k = min(range(len(tab)), key=lambda j: abs(tab[j] - ms))
        with self.oracle:
            o = self.oracle_obj(i)[k]
            return world.vec(o), o.form.name, o.frame.name

    def order_of(self, i):
        """Number of points an interpolation of ephemeris i needs: 2 for the linear method, the order for Lagrange."""
        if self.specs[i].get("interp") == "linear":
            return 2
        return self.specs[i].get("order") or self.kn.get("ephem_order", 8)

    def can_interp(self, i):
        return len(self.table_ms(i)) >= self.order_of(i)

    def table_ms(self, i):
        """Stored dates of ephemeris i (ms from its start) taken from the oracle's fresh copy."""
        if i not in self.otable:
            with self.oracle:
                e = self.oracle_obj(i)
                self.otable[i] = [int(round((o.date - e.start).total_seconds() * 1000)) for o in list(e)]
        return self.otable[i]

    def fp(self, task=None, **kw):
        f = dict(kw)
        if task is not None:
            f["prop_kind"] = self.kind(task.obj)
            f["call"] = task.call["call"]
            f["shared_prop_rebound"] = bool(task.rebound)
            f["ephem_cursor_shared"] = bool(task.cursor_shared)
        return f

    def check_untouched(self, where):
        with self.node:
            for i, obj in enumerate(self.pool):
                self.ctx.checks += 1
                if world.digest_obj(obj) != self.digests[i]:
                    self.ctx.violate(
                        "initial-orbit-untouched",
                        {"kind": "initial_object_modified", "prop_kind": self.kind(i)},
                        f"{where}: pool object {i} ({self.kind(i)}) was modified by a propagation/iteration call",
                    )
                    self.digests[i] = world.digest_obj(obj)

    def mark_use(self, i, by_task=None):
        """Object i was used by an API call: tasks on *other* orbits sharing its propagator are
        now 'rebound'; tasks on the same ephemeris cursor are 'cursor_shared'."""
        for t in self.tasks.values():
            if t.state not in ("running", "created") or t is by_task:
                continue
            if t.obj != i and self.kind(i) != "ephem" and self.kind(t.obj) != "ephem":
                declared = self.specs[t.obj].get("share") == i or self.specs[i].get("share") == t.obj or (self.specs[t.obj].get("share") is not None and self.specs[t.obj].get("share") == self.specs[i].get("share"))
                if self.pool[t.obj].propagator is self.pool[i].propagator and declared:  # (sharing declared by the plan: the open known finding)
                    if not t.rebound:
                        self.ctx.probe("shared_propagator_interleaved")
                    t.rebound = True
                    if by_task is not None:
                        by_task.rebound = True
            if t.obj == i and self.kind(i) == "ephem" and by_task is not None:
                if t.call["call"] in ("for", "ephem_iter") and by_task.call["call"] in ("for", "ephem_iter"):
                    t.cursor_shared = True
                    by_task.cursor_shared = True

    # -------------------------------------------------------------- ops
    def run(self):
        self.shared_ranges = {}
        ctx = self.ctx
        for op in self.plan["ops"]:
            name = op["op"]
            getattr(self, "op_" + name)(op)
            self.check_untouched(f"after {name}")
            ctx.ops_done += 1
        # end of run: the history oracles of every task that completed
        if self.hooks:
            for t in self.tasks.values():
                self.hooks.task_end(self, t)

    def op_clock(self, op):
        from datetime import datetime

        self.node.clock.set(datetime(*op["to"]))
        self.oracle.clock.set(datetime(*op["to"]))
        self.ctx.clock_seen(self.node.clock.now)
        self.ctx.fault("clock_jump")
        self.ctx.sig.append(("clock", op["to"][0]))
        self.ctx.ev("clock", *op["to"])

    def op_cache_clear(self, op):
        site = op["site"]
        with self.node:
            if site == "nutation":
                m = self.node.mod("beyond.frames.iau1980")
                for fn in ("_tab",):
                    f = getattr(m, fn, None)
                    if f is not None and hasattr(f, "__wrapped__") and hasattr(f.__wrapped__, "_cache"):
                        pass
                # memoised functions keep their cache on the undecorated function object
                for nm in dir(m):
                    f = getattr(m, nm)
                    w = getattr(f, "__wrapped__", None)
                    if w is not None and hasattr(w, "_cache") and nm != "_tab":
                        w._cache.clear()
            elif site == "interp":
                for o in self.pool:
                    # (reaches into the private bookkeeping of Ephem: skipped when a refactoring has renamed it)
                    if world.is_ephem(o) and hasattr(o, "_interp") and hasattr(o, "_reset_interp"):
                        o._reset_interp()
            elif site == "date_cache":
                for o in self.pool:
                    for s in list(o) if world.is_ephem(o) else [o]:
                        c_ = getattr(s.date, "_cache", None)
                        if isinstance(c_, dict):
                            c_.clear()
        self.ctx.fault("cache_clear")
        self.ctx.sig.append(("cache_clear", site))
        self.ctx.ev("cache_clear", site)

    def op_set_order(self, op):
        """The caller changes the interpolation order of an ephemeris it has (possibly) already used: from then on the ephemeris is
        the one a fresh Ephem of the same points with that order would be."""
        i = op["obj"] % len(self.pool)
        if self.kind(i) != "ephem" or self.specs[i].get("interp") == "linear":
            return
        if any(t.obj == i and t.state in ("running", "created") for t in self.tasks.values()):
            return  # not while an iteration over it is alive (its expectations were computed for the former order)
        with self.node:
            self.pool[i].order = op["order"]
        self.specs[i] = dict(self.specs[i], order=op["order"])
        self.ofresh_ephem.pop(i, None)
        self.otable.pop(i, None)
        for key in [k for k in self._ostate if k[0] == i]:
            del self._ostate[key]
        self.ctx.probe("ephemeris_order_changed_after_use")
        self.ctx.sig.append(("set_order", op["order"]))
        self.ctx.ev("set_order", i, op["order"])

    def op_propagate(self, op):
        i = op["obj"] % len(self.pool)
        kind = self.kind(i)
        ctx = self.ctx
        ms = op["ms"]
        if kind == "ephem":
            tab = self.table_ms(i)
            ms = max(tab[0], min(tab[-1], ms))
        with self.node:
            obj = self.pool[i]
            if op.get("as_td") and kind in ("sgp4", "kepler", "j2", "keplernum", "cw"):
                arg = self.node.timedelta(milliseconds=ms)
            else:
                arg = self.date_at(self.node, i, ms)
            try:
                r = obj.propagate(arg)
                got = (world.vec(r), r.form.name, r.frame.name, self.off_ms(i, r.date))
                exc = None
            except Exception as e:  # noqa
                got, exc = None, e
        self.mark_use(i)
        ctx.sig.append(("propagate", kind, len([t for t in self.tasks.values() if t.state == "running"])))
        ctx.mission_s += abs(ms) / 1000.0
        if kind == "ephem" and not self.can_interp(i):
            ctx.ev("propagate", i, kind, ms, type(exc).__name__ if exc else "ok")
            if not isinstance(exc, ValueError):
                ctx.violate("value-equals-direct-propagation", self.fp(kind="no_error_for_invalid_range", prop_kind=kind, call="propagate"), f"interpolating a {len(self.table_ms(i))}-point ephemeris at order {self.order_of(i)} should be refused with ValueError, got {exc!r}")
            else:
                ctx.probe("expected_exception_raised")
            return
        if exc is not None:
            ctx.ev("propagate", i, kind, ms, type(exc).__name__)
            ctx.violate(
                "value-equals-direct-propagation",
                self.fp(kind="unexpected_exception", prop_kind=kind, call="propagate", exc=type(exc).__name__, backward=ms < 0),
                f"propagate of pool object {i} ({kind}) to epoch{ms:+d} ms raised {type(exc).__name__}: {exc}",
            )
            return
        ctx.ev("propagate", i, kind, ms, fhex(got[0]), got[1], got[2])
        if abs(got[3] - ms) > 3e-3:
            ctx.violate("value-equals-direct-propagation", self.fp(kind="wrong_date", prop_kind=kind, call="propagate"), f"propagate to epoch{ms:+d} ms returned a state dated epoch{got[3]:+.3f} ms")
        exp = self.oracle_propagate(i, ms)
        self.compare_value(None, i, ms, got[:3], exp, f"propagate(obj {i} {kind}, epoch{ms:+d} ms) after {ctx.n} events of history", call="propagate")

    def compare_value(self, task, i, ms, got, exp, where, call=None, stored_point=False, table_point=False):
        ctx = self.ctx
        ctx.checks += 1
        kind = self.kind(i)
        g, gform, gframe = got
        e, eform, eframe = exp
        if (gform, gframe) != (eform, eframe):
            ctx.violate(
                "value-equals-direct-propagation",
                self.fp(task, kind="form_frame_differs", **({} if task else {"prop_kind": kind, "call": call})),
                f"{where}: form/frame {gform}/{gframe} but a direct propagation on a pristine node gives {eform}/{eframe}",
            )
            return
        if g.tobytes() == e.tobytes():
            return
        exact = kind in ANALYTIC or (kind == "ephem" and not stored_point and self.specs[i]["src"]["kind"] in ANALYTIC)
        if table_point and self.specs[i]["src"]["kind"] == "keplernum":
            exact = True  # the same deterministic integration on both nodes
        if not exact:
            is_num = kind == "keplernum" or (kind == "ephem" and self.specs[i]["src"]["kind"] == "keplernum")
            tol = NUM_TOL if is_num else EPHEM_NODE_TOL
            if is_num:
                lim = num_tol(self.specs[i] if kind == "keplernum" else self.specs[i]["src"])
            else:
                lim = EPHEM_NODE_TOL
            if gform == "cartesian":
                dp = float(np.linalg.norm(g[:3] - e[:3]))
                dv = float(np.linalg.norm(g[3:] - e[3:]))
                sp = self.specs[i] if kind == "keplernum" else self.specs[i]["src"]
                tag = f"num:{sp.get('method')}:{sp.get('step_s')}" if tol is NUM_TOL else "ephem_node"
                ctx.observe(tag + ":dp_m", dp)
                ctx.observe(tag + ":dv_mps", dv)
                if dp <= lim[0] and dv <= lim[1]:
                    ctx.probe("value_within_tolerance")
                    return
                detail = f"differs by {dp:.3e} m / {dv:.3e} m/s (tolerance {lim[0]} m / {lim[1]} m/s)"
            else:
                rel = float(np.max(np.abs(g - e) / (np.abs(e) + 1e-9)))
                if rel <= (1e-3 if is_num else 1e-9):
                    return
                detail = f"differs by {rel:.3e} relative"
        else:
            with np.errstate(all="ignore"):
                detail = f"not bit-identical (max abs diff {float(np.nanmax(np.abs(g - e))):.3e})"
        fpd = self.fp(task, kind="value_differs") if task else self.fp(kind="value_differs", prop_kind=kind, call=call, shared_prop_rebound=False, ephem_cursor_shared=False)
        ctx.violate(
            "value-equals-direct-propagation",
            fpd,
            f"{where}: yielded/returned state {detail} from what a pristine node returns for a direct propagation to that date",
        )

    # ------------------------------------------------------------- tasks
    def call_kwargs(self, node, ep, call, ls):
        """Keyword arguments of an iter()/ephemeris() call on `node` (None: the DateRange itself is refused)."""
        kw = {}
        nt = node.timedelta
        if call["call"] == "for":
            return kw
        if call.get("dates") is not None:
            kw["dates"] = [ep + nt(milliseconds=d) for d in call["dates"]]
            if call.get("dates_as_gen"):
                kw["dates"] = (d for d in kw["dates"])
        elif call.get("daterange") is not None:
            s, e, st, inc = call["daterange"]
            shared = getattr(self, "shared_ranges", None)
            key = (call.get("share_range"), s, e, st, inc)
            if call.get("share_range") is not None and node is self.node and shared is not None and key in shared:
                # the caller hands the very same DateRange object to several iterations (alive together or one after the other)
                kw["dates"] = shared[key]
                self.ctx.probe("date_range_object_shared")
            else:
                try:
                    kw["dates"] = node.Date.range(ep + nt(milliseconds=s), ep + nt(milliseconds=e), nt(milliseconds=st), inclusive=inc)
                except ValueError:
                    return None
                if call.get("share_range") is not None and node is self.node and shared is not None:
                    shared[key] = kw["dates"]
        else:
            if call.get("start_ms") is not None:
                kw["start"] = ep + nt(milliseconds=call["start_ms"])
            if call.get("stop_ms") is not None:
                kw["stop"] = (ep + nt(milliseconds=call["stop_ms"])) if call.get("stop_abs", True) else nt(milliseconds=call["stop_ms"])
            if call.get("step_ms") is not None:
                kw["step"] = nt(milliseconds=call["step_ms"])
            if call["call"] in ("ephem_iter",) and "strict" in call:
                kw["strict"] = call["strict"]
        if ls:
            kw["listeners"] = ls if len(ls) > 1 or call.get("listeners_as_list", True) else ls[0]
        return kw

    def oracle_stream(self, t):
        """The same call, alone, on the pristine node with fresh objects and fresh listeners:
        the sequential specification of 'no history'.  Returns [(is_event, ms, label, bytes)] or
        ('raises', name, items so far)."""
        i = t.obj
        out = []
        cap = len(t.expected) + 40 * (1 + len(t.lidx)) + 10
        with self.oracle:
            obj = self.oracle_obj(i) if self.kind(i) != "ephem" else world.build_orbit(self.oracle, {k: v for k, v in self.specs[i].items() if k != "share"})
            ep = world.epoch_of(obj)
            fresh = {j: world.build_listener(self.oracle, self.kn["listeners"][j], self.ostations) for j in sorted(set(t.lidx))} if not getattr(t, "via_caller_list", False) else {}
            ls = [fresh[j] for j in t.lidx] if fresh else []  # the same object wherever the plan lists the same listener
            kw = self.call_kwargs(self.oracle, ep, t.call, ls)
            if t.call["call"] == "visibility":
                kw.pop("listeners", None)
                ev = t.call.get("events")
                if ev == "listener" and ls:
                    kw["events"] = ls[0]
                elif ev == "list" and ls:
                    kw["events"] = list(ls)
                elif ev:
                    kw["events"] = True
                    if ls:
                        kw["listeners"] = list(ls)
                if getattr(t, "caller_list", None) is not None:
                    kw["listeners"] = [world.build_listener(self.oracle, self.kn["listeners"][j % len(self.kn["listeners"])], self.ostations) for j in self.kn["caller_lists"][t.caller_list]]
            try:
                if t.call["call"] == "for":
                    gen = iter(obj)
                elif t.call["call"] == "visibility":
                    gen = self.ostations[t.station].visibility(obj, **kw)
                elif t.call["call"] == "ephemeris":
                    gen = obj.ephemeris(**kw)
                else:
                    gen = obj.iter(**kw)
                last = None
                for item in gen:
                    ev = item.event
                    is_event = bool(ev) and item is not last
                    last = item
                    out.append((is_event, (item.date - ep).total_seconds() * 1000.0, ev.info if ev else None, world.vec(item).tobytes()))
                    if len(out) > cap:
                        break
            except Exception as e:  # noqa
                return ("raises", type(e).__name__, out)
        return out

    def op_start(self, op):
        ctx = self.ctx
        i = op["obj"] % len(self.pool)
        kind = self.kind(i)
        call = dict(op["call"])
        tid = op["task"]
        if tid in self.tasks:
            return
        if call["call"] == "visibility" and (not self.stations or kind == "cw" or (kind == "ephem" and self.specs[i]["src"]["kind"] == "cw")):
            call["call"] = "iter"
        if kind == "ephem" and call["call"] in ("iter", "ephemeris"):
            call["call"] = "ephem_iter"
        if kind != "ephem" and call["call"] in ("ephem_iter", "for"):
            call["call"] = "iter"
        t = Task(tid, i, call)
        # ---- model
        if kind == "ephem":
            tab = self.table_ms(i)
            t.expected, t.raises_after = (list(tab), None) if call["call"] == "for" else model_ephem_iter(call, tab, self.order_of(i))
        else:
            t.expected, t.raises_after = model_orbit_iter(call)
        # ---- listeners
        lidx = [j % len(self.listeners) for j in call.get("listeners", [])] if self.listeners else []
        if kind == "cw" or call["call"] == "for" or (kind == "ephem" and self.specs[i]["src"]["kind"] == "cw"):
            lidx = []  # Hill-frame states cannot be converted, no listener applies
        if call["call"] == "visibility" and call.get("caller_list") is not None and self.kn.get("caller_lists") and self.listeners:
            # the listeners are the ones of the caller-owned list
            lidx = [j % len(self.listeners) for j in self.kn["caller_lists"][call["caller_list"] % len(self.kn["caller_lists"])]]
            t.via_caller_list = True
        t.lidx = lidx
        with self.node:
            obj = self.pool[i]
            ls = [self.listeners[j] for j in lidx] if not getattr(t, "via_caller_list", False) else []
            t.listeners = ls
            kw = self.call_kwargs(self.node, self.epoch[i], call, ls)
            if kw is None:
                t.state = "done"
                self.tasks[tid] = t
                ctx.ev("start", tid, i, kind, "incoherent-daterange")
                return
            if call["call"] == "visibility":
                t.filtering = True
                t.station = call["station"] % len(self.stations)
                kw.pop("listeners", None)
                ev = call.get("events")
                if ev == "listener" and ls:
                    kw["events"] = ls[0]
                elif ev == "list" and ls:
                    kw["events"] = list(ls)
                elif ev:
                    kw["events"] = True
                    if ls:
                        kw["listeners"] = list(ls)
                if call.get("caller_list") is not None and self.caller_lists:
                    kw["listeners"] = self.caller_lists[call["caller_list"] % len(self.caller_lists)]
                    t.caller_list = call["caller_list"] % len(self.caller_lists)
            try:
                if call["call"] == "for":
                    t.gen = iter(obj)
                elif call["call"] == "visibility":
                    t.gen = self.stations[t.station].visibility(obj, **kw)
                elif call["call"] == "ephem_iter":
                    t.gen = obj.iter(**kw)
                elif call["call"] == "ephemeris":
                    t.gen = obj.ephemeris(**kw)
                else:
                    t.gen = obj.iter(**kw)
                t.state = "running"
            except Exception as e:  # noqa
                t.state = "error"
                t.exc = e
        self.tasks[tid] = t
        t.use_stream = bool(lidx) or call["call"] == "visibility" or kind == "keplernum" or (kind == "ephem" and self.specs[i]["src"]["kind"] == "keplernum")
        self.mark_use(i, by_task=t)
        for j in lidx:
            # creating an iteration does not touch the listeners (they are cleared at its first step)
            self.listener_users.setdefault(j, set()).add(tid)
        live = len([x for x in self.tasks.values() if x.state == "running"])
        if any(x is not t and x.obj == i and x.state == "running" for x in self.tasks.values()):
            ctx.probe("two_live_tasks_same_object")
        if any(x is not t and x.state in ("closed", "abandoned") and (x.obj == i or set(x.lidx) & set(lidx)) for x in self.tasks.values()):
            ctx.probe("reuse_after_cancel")
        if any(x is not t and x.state == "done" and set(x.lidx) & set(lidx) for x in self.tasks.values()):
            ctx.probe("listener_reused_sequentially")
        if kind == "keplernum" and t.expected and t.expected[0] != 0:
            ctx.probe("keplernum_retropolation")
        ctx.sig.append(("start", kind, call["call"], live, len(lidx)))
        ctx.state(kind, call["call"], self._dir_class(call, t), live, "L" if lidx else "")
        ctx.ev("start", tid, i, kind, call["call"], t.state, len(t.expected), t.raises_after or "")
        if t.state == "error":
            self.unexpected(t, t.exc, "at call time")

    def _dir_class(self, call, t):
        if t.raises_after and not t.expected:
            return "raises"
        if len(t.expected) >= 2:
            return ("fwd" if t.expected[1] > t.expected[0] else "bwd") + ("-pre" if t.expected[0] < 0 else "-at" if t.expected[0] == 0 else "-post")
        return "single"

    def unexpected(self, t, exc, where):
        ctx = self.ctx
        kind = self.kind(t.obj)
        exp = t.expected
        if t.raises_after and type(exc).__name__ == t.raises_after and t.n_samples == len(exp):
            ctx.probe("expected_exception_raised")
            t.state = "done"
            return
        if t.lshared_live and t.lidx:
            # the plan itself made two live iterations share one listener object: their bisections
            # legitimately see each other's `prev` state; nothing is asserted (DESIGN.md 5.3)
            ctx.probe("interleaved_shared_listener_interference")
            t.state = "interfered"
            return
        if kind == "ephem" and getattr(t, "lidx", None) and isinstance(exc, ValueError) and "impossible to interpolate" in str(exc) and len(self.table_ms(t.obj)) < self.order_of(t.obj):
            # locating an event between two stored points needs an interpolation that a table shorter than the interpolation order
            # cannot give: the refusal (C09: refused, not extrapolated / not guessed) is legitimate, also when the samples themselves
            # are the stored points
            ctx.probe("short_table_event_location_refused")
            t.state = "done"
            return
        backward = len(exp) >= 2 and exp[1] < exp[0]
        n_exp = len(exp)
        span_steps = None
        if kind == "keplernum" and exp:
            span_steps = abs(exp[-1] - exp[0]) / (self.specs[t.obj]["step_s"] * 1000.0)
        t.state = "error"
        ctx.violate(
            "iteration-contract",
            self.fp(
                t,
                kind="unexpected_exception",
                exc=type(exc).__name__,
                backward=bool(backward),
                short_span=bool(span_steps is not None and span_steps < self.kn.get("ephem_order", 8)),
                dates_arg="list" if t.call.get("dates") is not None else ("daterange" if t.call.get("daterange") is not None else "none"),
            ),
            f"task {t.tid} ({kind}.{t.call['call']} {self._call_str(t.call)}) raised {type(exc).__name__}: {exc} {where}; the model expects {n_exp} dates",
        )

    def _call_str(self, c):
        return ", ".join(f"{k}={v}" for k, v in sorted(c.items()) if k != "call" and v is not None)

    def step_task(self, t, cap=1):
        """Advance a task by up to `cap` items; returns number of items obtained."""
        ctx = self.ctx
        got = 0
        while got < cap and t.state == "running":
            with self.node:
                try:
                    item = next(t.gen)
                    exc = None
                except StopIteration:
                    item, exc = None, StopIteration
                except Exception as e:  # noqa
                    item, exc = None, e
            self.mark_use(t.obj, by_task=t)
            t.stepped = True
            for j in getattr(t, "lidx", []):
                for u in self.listener_users.get(j, ()):
                    # two iterations *being consumed* at the same time through one listener object
                    # (the plan's own doing): each sees the other's `prev` state
                    if u != t.tid and self.tasks[u].state == "running" and self.tasks[u].stepped:
                        self.tasks[u].lshared_live = True
                        t.lshared_live = True
            if exc is StopIteration:
                t.state = "done"
                ctx.ev("stop", t.tid, t.n_samples, len(t.events))
                self.finish(t)
                break
            if exc is not None:
                ctx.ev("raise", t.tid, type(exc).__name__)
                self.unexpected(t, exc, f"after {t.n_samples} samples")
                break
            got += 1
            self.on_item(t, item)
        return got

    def finish(self, t):
        ctx = self.ctx
        if t.raises_after and t.n_samples <= len(t.expected):
            ctx.violate(
                "iteration-contract",
                self.fp(t, kind="no_error_for_invalid_range"),
                f"task {t.tid} ({self.kind(t.obj)}.{t.call['call']} {self._call_str(t.call)}): the model expects {t.raises_after} after {len(t.expected)} items (date outside the table / incoherent range) but the iteration completed normally with {t.n_samples} items",
            )
            return
        if t.use_stream and not t.lshared_live and t.ostream is not None and not isinstance(t.ostream, tuple) and len(t.items) < len(t.ostream):
            r_ev, r_ms, r_label, _ = t.ostream[len(t.items)]
            ctx.violate(
                "history-independence",
                self.fp(t, kind="stream_shorter_than_fresh_run", listeners=bool(t.lidx), missing_event=bool(r_ev)),
                f"task {t.tid} ({self.kind(t.obj)}.{t.call['call']} {self._call_str(t.call)}) ended after {len(t.items)} items; the same call made alone on a pristine node goes on with {'an event' if r_ev else 'a sample'} at epoch{r_ms:+.3f} ms '{r_label or ''}'",
            )
        ctx.checks += 1
        if t.filtering:
            t.skipped.extend(range(t.cursor, len(t.expected)))
            t.cursor = len(t.expected)
            return
        if t.n_samples != len(t.expected):
            backward = len(t.expected) >= 2 and t.expected[1] < t.expected[0]
            ctx.violate(
                "iteration-contract",
                self.fp(t, kind="missing_dates", backward=bool(backward), got_none=t.n_samples == 0),
                f"task {t.tid} ({self.kind(t.obj)}.{t.call['call']} {self._call_str(t.call)}) ended after {t.n_samples} sample dates, the range/list has {len(t.expected)} (first..last inclusive)",
            )

    def on_item(self, t, item):
        ctx = self.ctx
        i = t.obj
        kind = self.kind(i)
        with self.node:
            date = item.date
            ev = item.event
            ms = self.off_ms(i, date)
            vals = world.vec(item)
            form, frame = item.form.name, item.frame.name
            label = ev.info if ev else None
        # an event whose bisection never moved `end` is the sample object itself, yielded twice:
        # the second delivery is the sample
        is_event = bool(ev) and item is not t.last_item_obj
        t.last_item_obj = item
        ctx.ev("item", t.tid, "E" if is_event else "S", f"{ms:.3f}", fhex(vals), label or "")
        if not is_event:
            idx = t.n_samples
            t.n_samples += 1
            ctx.checks += 1
            if idx >= len(t.expected) and not t.filtering or (t.filtering and t.cursor >= len(t.expected)):
                ctx.violate(
                    "iteration-contract",
                    self.fp(t, kind="extra_item_beyond_stop" if not t.raises_after else "no_error_for_invalid_range"),
                    f"task {t.tid} ({kind}.{t.call['call']} {self._call_str(t.call)}): item #{idx} dated epoch{ms:+.3f} ms is beyond the {len(t.expected)} dates of the range/list",
                )
                t.state = "error"
                return
            if t.filtering:
                # station.visibility() only lets the above-horizon samples through: the sample may skip
                # range dates (the hooks verify that the skipped ones are below the horizon)
                k = t.cursor
                while k < len(t.expected) and abs(ms - t.expected[k]) > 3e-3:
                    k += 1
                if k < len(t.expected):
                    t.skipped.extend(range(t.cursor, k))
                    t.sample_idx.append(k)
                    t.cursor = k + 1
                    idx = k
                else:
                    idx = min(t.cursor, len(t.expected) - 1)
            else:
                t.sample_idx.append(idx)
            if abs(ms - t.expected[idx]) > 3e-3:
                ctx.violate(
                    "iteration-contract",
                    self.fp(t, kind="wrong_date", backward=len(t.expected) >= 2 and t.expected[1] < t.expected[0]),
                    f"task {t.tid} ({kind}.{t.call['call']} {self._call_str(t.call)}): sample #{idx} is dated epoch{ms:+.3f} ms, expected epoch{t.expected[idx]:+d} ms",
                )
                return
            t.samples.append(item)
        else:
            t.events.append(item)
            ctx.probe("event_items")
        j = len(t.items)
        t.items.append((is_event, ms, label))
        # history oracle: the same call, alone, with fresh objects on a pristine node yields the same stream
        if t.use_stream and not t.lshared_live:
            if t.ostream is None:
                t.ostream = self.oracle_stream(t)
            ref = t.ostream[2] if isinstance(t.ostream, tuple) else t.ostream
            ctx.checks += 1
            if j < len(ref):
                r_ev, r_ms, r_label, r_bytes = ref[j]
                if r_ev != is_event or abs(r_ms - ms) > 3e-3 or r_label != label or r_bytes != vals.tobytes():
                    what = "an event" if is_event else "a sample"
                    rwhat = "an event" if r_ev else "a sample"
                    ctx.violate(
                        "history-independence",
                        self.fp(t, kind="stream_differs_from_fresh_run", listeners=bool(t.lidx), same_kind=r_ev == is_event, same_date=abs(r_ms - ms) <= 3e-3),
                        f"task {t.tid} ({kind}.{t.call['call']} {self._call_str(t.call)}) item #{j} is {what} dated epoch{ms:+.3f} ms '{label or ''}'; the same call made alone with fresh objects on a pristine node yields {rwhat} dated epoch{r_ms:+.3f} ms '{r_label or ''}'" + ("" if r_bytes != vals.tobytes() or r_ev != is_event else " (same values)") + (" with different values" if r_bytes != vals.tobytes() and r_ev == is_event and abs(r_ms - ms) <= 3e-3 else ""),
                    )
            elif not isinstance(t.ostream, tuple):
                ctx.violate(
                    "history-independence",
                    self.fp(t, kind="stream_longer_than_fresh_run", listeners=bool(t.lidx)),
                    f"task {t.tid} ({kind}.{t.call['call']} {self._call_str(t.call)}) yields item #{j} ({'event' if is_event else 'sample'} at epoch{ms:+.3f} ms '{label or ''}'); the same call made alone on a pristine node ends after {len(ref)} items",
                )
        # value oracle
        do_check = True
        if kind == "keplernum" or (kind == "ephem" and self.specs[i]["src"]["kind"] == "keplernum"):
            chk = t.call.get("check_idx")
            do_check = (not is_event) and (chk is None or (t.n_samples - 1) in chk)
            if kind == "keplernum" and self.specs[i].get("mans"):
                # the re-sampling polynomial runs across the velocity jumps of the maneuvers: between grid points the stream and a direct
                # propagation legitimately differ (C06 / C17 territory); such orbits are judged by the date contract and by the stream of the
                # same call made alone with fresh objects on a pristine node
                do_check = False
                ctx.probe("numerical_orbit_with_maneuvers")
        if is_event and t.lshared_live:
            # the plan made two live iterations share this listener object: the event comes from a
            # bisection between states of two different iterations; nothing is asserted about it
            ctx.probe("interleaved_shared_listener_interference")
            do_check = False
        if do_check and t.filtering:
            ems = ms if is_event else t.expected[t.sample_idx[-1]]
            with self.oracle:
                o = self.ostate(i, ems).copy()
                o.frame = self.ostations[t.station]
                o.form = "spherical"
                exp = (world.vec(o), o.form.name, o.frame.name)
            self.compare_value(t, i, ms, (vals, form, frame), exp, f"task {t.tid} ({kind}.visibility from station {t.station}) item dated epoch{ms:+.3f} ms")
            do_check = False
        if do_check:
            ems = ms if is_event else t.expected[t.n_samples - 1]
            where = f"task {t.tid} ({kind}.{t.call['call']}) item dated epoch{ms:+.3f} ms"
            stored = kind == "ephem" and not is_event and (t.call["call"] == "for" or (t.call.get("step_ms") is None and t.call.get("dates") is None))
            if stored:
                # a stored point: equal to the point of a pristine copy of the table ...
                self.compare_value(t, i, ms, (vals, form, frame), self.oracle_stored(i, ems), where + " (stored point)", table_point=True)
                # ... and to a direct interpolation at that date, when the table can be interpolated
                if self.can_interp(i) and t.state == "running":
                    self.compare_value(t, i, ms, (vals, form, frame), self.oracle_propagate(i, ems), where, stored_point=True)
            elif kind != "ephem" or self.can_interp(i):
                self.compare_value(t, i, ms, (vals, form, frame), self.oracle_propagate(i, ems), where)
        if self.hooks and t.state == "running":
            self.hooks.on_item(self, t, item, is_event)
        if t.call.get("fork_items") and not is_event and not getattr(t, "forked", False) and len(t.samples) >= 2:
            self.fork_items(t)
        if t.call.get("scribble") and not t.lidx and t.call["call"] != "for":  # `for p in ephem` hands out the stored points themselves, by design
            # the consumer owns what it was given: it changes the form (and, outside the Hill frame, the
            # frame) of the yielded state in place, as TopocentricFrame.visibility itself does
            with self.node:
                try:
                    item.form = t.call["scribble"]
                    if kind != "cw" and not (kind == "ephem" and self.specs[i]["src"]["kind"] == "cw") and t.call.get("scribble_frame"):
                        item.frame = t.call["scribble_frame"]
                except Exception:  # noqa - e.g. a degenerate state in that form; irrelevant here
                    pass
            ctx.fault("consumer_mutates_item")

    def fork_items(self, t):
        """The caller goes on from two points an iteration has handed out (each is an orbit with a propagator): an iteration started
        from the first one, suspended while the second one is propagated, continues as if nothing had happened in between - i.e. as
        the same iteration made on an independent copy of that point, alone."""
        ctx = self.ctx
        a, b = t.samples[-2], t.samples[-1]
        t.forked = True
        with self.node:
            if getattr(a, "propagator", None) is None or getattr(b, "propagator", None) is None or not hasattr(a, "iter"):
                return
            sp = self.specs[t.obj]
            step = self.node.timedelta(seconds=float(sp.get("step_s", 60)))
            try:
                early = t.tid % 2 == 0  # the second point is used before the first item is asked for / between two items
                ref_it = a.copy().iter(stop=step * 3, step=step)
                next(ref_it)
                ref = next(ref_it)
                ref_it.close()
                it = a.iter(stop=step * 3, step=step)
                if not early:
                    next(it)
                b.propagate(b.date + step)
                if early:
                    next(it)
                got = next(it)
                it.close()
            except Exception as e:  # noqa
                ctx.probe("fork_items_refused:" + type(e).__name__)
                return
            same = (got.date == ref.date) and world.vec(got).tobytes() == world.vec(ref).tobytes()
            detail = f"{world.vec(got)} dated {got.date} instead of {world.vec(ref)} dated {ref.date}"
        ctx.checks += 1
        ctx.probe("yielded_points_used_as_new_orbits")
        ctx.fault("interleaved_use_of_yielded_points")
        if not same:
            ctx.violate(
                "history-independence",
                self.fp(t, kind="iteration_from_a_yielded_point_disturbed_by_its_sibling"),
                f"task {t.tid} ({self.kind(t.obj)}.{t.call['call']}): an iteration started from a point this iteration yielded, suspended while the next yielded point was propagated, continues with {detail} (the same iteration made alone on an independent copy)",
            )

    def op_next(self, op):
        t = self.tasks.get(op["task"])
        if t is None or t.state != "running":
            return
        n = self.step_task(t, cap=op.get("k", 1))
        self.ctx.sig.append(("next", self.kind(t.obj), n, len([x for x in self.tasks.values() if x.state == "running"])))

    def op_drain(self, op):
        t = self.tasks.get(op["task"])
        if t is None or t.state != "running":
            return
        cap = len(t.expected) + 40 * (1 + len(getattr(t, "lidx", []))) + 10
        self.step_task(t, cap=cap)
        if t.state == "running":
            self.ctx.violate("iteration-contract", self.fp(t, kind="does_not_terminate"), f"task {t.tid} still yields after {cap} items; the range has {len(t.expected)} dates")
            t.state = "error"
        self.ctx.sig.append(("drain", self.kind(t.obj)))
        if len(t.expected) >= 2:
            self.ctx.mission_s += abs(t.expected[-1] - t.expected[0]) / 1000.0

    def op_close(self, op):
        t = self.tasks.get(op["task"])
        if t is None or t.state != "running":
            return
        with self.node:
            if hasattr(t.gen, "close"):
                t.gen.close()
            t.gen = None  # `for p in ephem: break` - the ephemeris is its own iterator, nothing to close
        t.state = "closed"
        self.ctx.fault("iter_cancel")
        self.ctx.sig.append(("close", self.kind(t.obj), t.n_samples))
        self.ctx.ev("close", t.tid, t.n_samples)

    def op_abandon(self, op):
        t = self.tasks.get(op["task"])
        if t is None or t.state != "running":
            return
        t.state = "abandoned"  # the generator object stays suspended forever
        self.ctx.fault("iter_abandon")
        self.ctx.sig.append(("abandon", self.kind(t.obj), t.n_samples))
        self.ctx.ev("abandon", t.tid, t.n_samples)

    def op_ephem(self, op):
        """Orbit.ephem()/Ephem.ephem(): an atomic call that drains an iteration internally."""
        ctx = self.ctx
        i = op["obj"] % len(self.pool)
        kind = self.kind(i)
        call = dict(op["call"])
        if kind == "ephem":
            tab = self.table_ms(i)
            exp, exp_exc = model_ephem_iter(call, tab, self.order_of(i))
        else:
            exp, exp_exc = model_orbit_iter(call)
        with self.node:
            obj = self.pool[i]
            ep = self.epoch[i]
            nt = self.node.timedelta
            kw = {}
            if kind == "ephem" and "strict" in call:
                kw["strict"] = call["strict"]
            if call.get("dates") is not None:
                kw["dates"] = [ep + nt(milliseconds=d) for d in call["dates"]]
            else:
                if call.get("start_ms") is not None:
                    kw["start"] = ep + nt(milliseconds=call["start_ms"])
                if call.get("stop_ms") is not None:
                    kw["stop"] = (ep + nt(milliseconds=call["stop_ms"])) if call.get("stop_abs", True) else nt(milliseconds=call["stop_ms"])
                if call.get("step_ms") is not None:
                    kw["step"] = nt(milliseconds=call["step_ms"])
            try:
                e = obj.ephem(**kw)
                got = sorted(self.off_ms(i, o.date) for o in list(e))
                exc = None
            except Exception as ex:  # noqa
                got, exc = None, ex
        self.mark_use(i)
        ctx.sig.append(("ephem", kind))
        ctx.ev("ephem", i, kind, "raises" if exc else len(got))
        t = Task(-1, i, dict(call, call="ephem"))
        t.expected = exp
        t.raises_after = exp_exc
        if exc is not None:
            t.n_samples = len(exp)  # an atomic call: the exception may come after any number of internal items
            self.unexpected(t, exc, "in ephem()")
            return
        if exp_exc:
            ctx.violate("iteration-contract", self.fp(t, kind="no_error_for_invalid_range"), f"{kind}.ephem({self._call_str(call)}) should raise {exp_exc}, returned {len(got)} points")
            return
        ctx.checks += 1
        if len(got) != len(exp) or any(abs(a - b) > 3e-3 for a, b in zip(got, sorted(exp))):
            ctx.violate(
                "iteration-contract",
                self.fp(t, kind="missing_dates", backward=len(exp) >= 2 and exp[1] < exp[0], got_none=len(got) == 0),
                f"{kind}.ephem({self._call_str(call)}) tabulated {len(got)} dates, the range has {len(exp)}",
            )
