"""C15 - state vectors have value semantics and change atomically.

A heap of <= 6 objects (originals + every copy made during the run) is driven
through histories (<= 6) of copy / convert / assign / **fail** operations.  Faults
(F3) are natural (unknown form/frame, Hill, ephemeris-backed frame outside its
span) or injected at the k-th callee boundary of a conversion through wrappers
installed in the node's private copy of the package.  Pickles cross a process
boundary (another node) or a restart (DESIGN.md 5.5)."""

import pickle

import numpy as np

from sim.node import Node
from sim import world
from sim.core import fhex

LEVEL = "exploration"
TIERS = {
    "quick": {"runs": 3000, "max_wall": 170, "chunk": 20},
    "thorough": {"runs": 200000, "max_wall": 1700, "chunk": 40},
}
RULE = (
    "one run = one seeded history (<= 6 operations) over a heap of state vectors / orbits (with or without covariance, maneuvers, metadata): copy "
    "(plain / form / frame / same=), in-place form and frame changes (built-in, station, orbit- and ephemeris-attached frames), element / metadata / "
    "maneuver / covariance assignments, as_orbit / as_statevector, pickling across a process boundary or a restart, and failing variants of every "
    "converting operation (natural failures and faults injected at the k-th callee boundary). distinct = distinct (operation kind, fault site, object "
    "shape) sequences; non-trivial = the history contains a failing conversion, or a mutation of an object that has a copy/source relative in the heap"
)
STATE_MEASURE = "(operation kind sequence, fault site) and heap shapes (who was copied from whom, cov/maneuver presence)"
PROBES = [
    "fault_fired_natural", "fault_fired_injected", "atomic_failure_checked", "drag_cov_with_state",
    "mutation_with_relatives", "pickle_across_nodes", "pickle_with_cov", "access_checked", "foreign_name_rejected", "still_usable_after_failure", "infos_checked", "form_call_checked", "cov_built_from_cov", "heap_object_registered_as_frame", "converted_into_frame_of_heap_object", "copy_module_used", "pickle_out_of_band", "infos_result_changed_by_caller", "local_covariance_against_own_axes", "date_assigned", "hill_frame_state_pickled",
]
REAL_VS_STUB = "real: StateVector/Orbit/Cov/forms/frames/propagators, pickle; stub: none (the injected faults are raising wrappers around real callees in the node's private package copy); model: snapshots (bytes, labels, identities) of every heap object before each operation"
ASSUMPTIONS = ["asynchronous exceptions (KeyboardInterrupt/MemoryError at an arbitrary bytecode) are not injected: the statement speaks of a form or frame change that fails", "mutating the inside of a Man object shared by a copy and its source is not exercised (list-level independence only)"]
SAMPLED_ONLY = []

FORMS = ["cartesian", "spherical", "cylindrical", "keplerian", "keplerian_eccentric", "keplerian_mean", "keplerian_circular", "keplerian_mean_circular", "equinoctial", "tle"]
FORM_ALIASES = ["mean", "circular", "eccentric", "mean_circular"]
INERTIAL = ["EME2000", "MOD", "TOD", "TEME", "GCRF", "CIRF", "G50"]
ROTATING = ["ITRF", "PEF", "TIRF"]


class InjectedFault(Exception):
    pass


# ------------------------------------------------------------------ generate


def gen_plan(rng, tier, i):
    objs = []
    for _ in range(rng.randint(1, 2)):
        a = rng.uniform(6.9e6, 4.2e7)
        e = rng.uniform(0.001, min(0.7, 1 - 6.7e6 / a))
        spec = {
            "type": rng.choice(["sv", "orbit", "orbit"]),
            "kep": [a, e, rng.uniform(0.05, 3.0), rng.uniform(0.1, 6.2), rng.uniform(0.1, 6.2), rng.uniform(0.1, 6.2)],
            "frame": rng.choice(INERTIAL + ["EME2000", "EME2000", "ITRF"]),
            "form": rng.choice(FORMS),
            "epoch": [rng.randint(55000, 59000), float(rng.randint(0, 86399))],
            "prop": rng.choice(["kepler", "none", "kepler"]),
            "cov": rng.choice([None, None, "same", "same", "QSW", "TNW", "other"]),
            "cov_seed": rng.randrange(1 << 30),
            "mans": rng.choice([0, 0, 1, 2]),
            "meta": rng.choice([{}, {"name": "SAT-1", "cospar_id": "2018-001A"}, {"name": "X", "mass": 812.5, "user": {"k": 1, "tag": "a"}}]),
        }
        if rng.random() < 0.15:
            spec = {"type": "orbit", "tle": rng.choice(["iss", "molniya"]), "cov": rng.choice([None, "same"]), "cov_seed": rng.randrange(1 << 30), "mans": 0, "meta": {}}
        objs.append(spec)
    ops = []
    n = rng.randint(2, 6)
    kinds = ["copy", "copy", "set_form", "set_form", "set_frame", "set_frame", "assign", "meta", "man", "cov_set", "cov_frame", "as_orbit", "as_sv", "pickle", "access", "access", "infos", "infos", "form_call", "cov_from_cov", "as_frame"]
    for _ in range(n):
        k = rng.choice(kinds)
        op = {"op": k, "obj": rng.randrange(8)}
        if k == "copy":
            op["form"] = rng.choice([None, None] + FORMS + FORM_ALIASES)
            op["frame"] = rng.choice([None, None] + INERTIAL + ROTATING + ["Sta", "OrbF", "EphF", "HeapF", "HeapF"])
            if rng.random() < 0.15:
                op["same"] = rng.randrange(8)
        elif k == "set_form":
            op["form"] = rng.choice(FORMS + FORM_ALIASES)
        elif k == "as_frame":
            op["orient"] = rng.choice(["QSW", "TNW", None])
        elif k == "form_call":
            op["form"] = rng.choice(FORMS + [None, None, None])  # None: the current form (identity conversion)
        elif k == "set_frame":
            op["frame"] = rng.choice(INERTIAL + ROTATING + ["Sta", "OrbF", "EphF", "WGS84"])
        elif k == "assign":
            op["how"] = rng.choice(["index", "name", "alias", "key", "slice"])
            op["i"] = rng.randrange(6)
            op["scale"] = rng.choice([1.0000001, 1.001, 0.999])
        elif k == "meta":
            op["key"] = rng.choice(["name", "cospar_id", "mass", "user", "newkey"])
            op["value"] = rng.choice(["CHANGED", 42.5, {"k": 2}])
            op["inner"] = rng.random() < 0.3
        elif k == "man":
            op["how"] = rng.choice(["append", "remove", "replace", "clear"])
        elif k == "cov_set":
            op["i"], op["j"] = rng.randrange(6), rng.randrange(6)
        elif k == "cov_frame":
            op["frame"] = rng.choice(INERTIAL + ROTATING + ["QSW", "TNW", "Sta"])
        elif k == "pickle":
            op["where"] = rng.choice(["same", "other", "restart"])
        # failing variants of the converting operations
        if k in ("copy", "set_form", "set_frame", "cov_frame") and rng.random() < 0.45:
            r = rng.random()
            if r < 0.4:
                op["fail"] = {"kind": "natural", "what": rng.choice(["unknown", "hill", "ephem_out"])}
            else:
                site = rng.choice(["form_edge", "form_edge", "expand", "center", "transform_end", "to_local", "get_frame"])
                op["fail"] = {"kind": "inject", "site": site, "k": rng.randint(1, 4) if site in ("expand", "form_edge") else rng.randint(1, 2)}
        ops.append(op)
    import random

    child = random.Random("c15-child:" + repr([o_["op"] for o_ in ops]) + repr(objs[0].get("cov_seed")))  # added after the first version: own generator, earlier plans keep their draws
    for o_ in ops:
        if o_["op"] == "pickle" and child.random() < 0.4:
            o_["where"] = child.choice(["copy", "deepcopy", "oob"])
    if child.random() < 0.07:
        # biased history: an object of the heap gives its name to a frame (QSW / TNW / plain), then another object is converted into
        # that frame (the combination is rare in the unbiased plans)
        if len(objs) == 1:
            o2 = dict(objs[0])
            if "kep" in o2:
                o2["kep"] = [o2["kep"][0] * 1.01] + list(o2["kep"][1:])
            o2["cov_seed"] = child.randrange(1 << 30)
            objs.append(o2)
        if "kep" in objs[0] and child.random() < 0.7:
            objs[0]["type"] = "sv"
            objs[0]["frame"] = child.choice(["TEME", "MOD", "EME2000", "GCRF"])
            objs[0]["form"] = child.choice(["cartesian", "keplerian", "spherical"])
        at = child.randint(0, min(len(ops), 3))
        ops[at:at] = [{"op": "as_frame", "obj": 0, "orient": child.choice(["QSW", "TNW", None])}, {"op": "copy", "obj": 1, "form": None, "frame": "HeapF"}]
        del ops[6:]
    if child.random() < 0.2 and len(ops) < 6:
        # the date of an object is assigned (a metadata assignment like any other)
        ops.insert(child.randint(0, len(ops)), {"op": "set_date", "obj": child.randrange(8), "dt_s": child.choice([3600.0, -7200.0, 86400.0, 0.5])})
    if child.random() < 0.06 and len(ops) < 6:
        ops.insert(child.randint(0, len(ops)), {"op": "hill_pickle", "obj": 0, "first": child.choice(["QSW", "TNW"]), "where": child.choice(["same", "other"])})
    if child.random() < 0.15 and len(ops) < 6:  # (histories of length <= 6, as the quantifier says)
        ops.insert(child.randint(0, len(ops)), {"op": "pickle", "obj": child.randrange(8), "where": child.choice(["copy", "deepcopy", "oob"])})
    return {"knobs": {"objects": objs, "with_eop": False}, "ops": ops}


# --------------------------------------------------------------------- world


def _psd(seed):
    rs = np.random.RandomState(seed)
    a = rs.normal(size=(6, 6)) * np.array([1e2, 1e2, 1e2, 1e-1, 1e-1, 1e-1])[:, None]
    m = a @ a.T
    return (m + m.T) / 2


def build_object(node, spec, env):
    if spec.get("tle"):
        orb = node.Tle(world.tle_text(spec["tle"])).orbit()
    else:
        date = world.mk_date(node, spec["epoch"])
        base = node.StateVector(spec["kep"], date, "keplerian", spec["frame"] if spec["frame"] in INERTIAL else "EME2000")
        if spec["frame"] not in INERTIAL:
            base.frame = spec["frame"]
        base_cart = base.copy(form="cartesian")
        base.form = spec["form"]
        if not np.all(np.isfinite(np.asarray(base, dtype=float))):
            base = base_cart
        if spec["type"] == "orbit":
            prop = node.mod("beyond.propagators.kepler").Kepler() if spec["prop"] == "kepler" else node.mod("beyond.propagators.none").NonePropagator()
            orb = base.as_orbit(prop)
        else:
            orb = base
    for k, v in spec.get("meta", {}).items():
        setattr(orb, k, dict(v) if isinstance(v, dict) else v)
    if spec.get("mans"):
        man = node.mod("beyond.orbits.man")
        td = node.timedelta
        ms = [man.ImpulsiveMan(orb.date + td(minutes=10), [1.0, 0.0, 0.0], frame="TNW", comment="m1")]
        if spec["mans"] > 1:
            ms.append(man.ContinuousMan(orb.date + td(minutes=30), td(minutes=5), dv=[0.0, 1.0, 0.0], frame="QSW"))
        orb.maneuvers = ms
    if spec.get("cov"):
        fr = spec["cov"]
        if fr == "same":
            fr = orb.frame
        elif fr == "other":
            fr = "EME2000" if orb.frame.name != "EME2000" else "TEME"
        orb.cov = node.Cov(orb, _psd(spec["cov_seed"]), fr)
    return orb


def man_sig(m):
    """What a maneuver object holds (by value): a copy and its source may share maneuver objects, so nothing done to one of the two
    states may change them."""
    out = [type(m).__name__]
    for k, v in sorted(vars(m).items()):
        if hasattr(v, "tobytes"):
            out.append((k, np.asarray(v, dtype=float).tobytes()))
        elif hasattr(v, "scale") and hasattr(v, "datetime"):
            out.append((k, world.date_key(v)))
        else:
            out.append((k, repr(v)))
    return tuple(out)


def _cov_view(cov):
    """What the covariance is once expressed in an Earth-fixed frame (a pure conversion: it shows the date and the state the
    covariance keeps for itself)."""
    try:
        c = cov.copy(frame="ITRF")
        a = np.array(c, dtype=float)
        return a.tobytes() if np.all(np.isfinite(a)) else "nan"
    except Exception as e:  # noqa
        return type(e).__name__


def snap(o):
    """Everything a caller can observe of one object, as comparable data."""
    d = o._data
    cov = d.get("cov")
    mans = d.get("maneuvers")
    meta = {}
    for k, v in d.items():
        if k in ("date", "form", "frame", "cov", "maneuvers", "propagator", "infos", "event"):
            continue
        if isinstance(v, dict):
            meta[k] = repr(sorted(v.items()))
        elif isinstance(v, (str, int, float, bool, type(None))):
            meta[k] = repr(v)
        else:  # e.g. the Tle object a TLE-born orbit carries: its text, not its address
            meta[k] = type(v).__name__ + ":" + (str(v) if type(v).__str__ is not object.__str__ else "")
    return {
        "vals": np.array(o, dtype=float).tobytes(),
        "form": d["form"].name,
        "frame": d["frame"].name,
        "date": world.date_key(d["date"]),
        "meta": meta,
        "mans": None if mans is None else tuple((id(m), man_sig(m)) for m in (mans if isinstance(mans, list) else [mans])),
        "cov": None if cov is None else np.array(cov, dtype=float).tobytes(),
        # (only between built-in frames: an object expressed in a frame attached to another heap object depends on that object by design)
        "cov_itrf": None if cov is None else (_cov_view(cov) if (d["frame"].name in INERTIAL + ROTATING and str(getattr(cov.frame, "name", cov.frame)) in INERTIAL + ROTATING + ["QSW", "TNW"]) else "-"),
        "cov_frame": None if cov is None else str(getattr(cov.frame, "name", cov.frame)),
        "prop": id(d.get("propagator")) if "propagator" in d else None,
        "type": type(o).__name__,
    }


def finite(o):
    c = o._data.get("cov")
    return bool(np.all(np.isfinite(np.asarray(o, dtype=float))) and (c is None or np.all(np.isfinite(np.asarray(c, dtype=float)))))


def phys(o):
    """Cartesian values in the object's frame, computed on a copy."""
    return np.array(o.copy(form="cartesian"), dtype=float)


def close(a, b, rel=1e-9):
    a = np.asarray(a, float)
    b = np.asarray(b, float)
    if not (np.all(np.isfinite(a)) and np.all(np.isfinite(b))):
        return np.array_equal(np.isfinite(a), np.isfinite(b))
    sp = max(np.linalg.norm(a[:3]), np.linalg.norm(b[:3]), 1.0)
    sv = max(np.linalg.norm(a[3:]), np.linalg.norm(b[3:]), 1e-3)
    return np.linalg.norm(a[:3] - b[:3]) <= rel * sp + 1e-6 and np.linalg.norm(a[3:] - b[3:]) <= rel * sv + 1e-9


class Injector:
    """Raises InjectedFault at the k-th call of a callee, through a wrapper installed in the node's
    private package copy; restores the original on exit."""

    def __init__(self, node, site, k):
        self.node, self.site, self.k = node, site, k
        self.count = 0
        self.fired = False
        self.undo = []

    def _wrap(self, holder, name, after=False):
        orig = holder.__dict__[name] if name in getattr(holder, "__dict__", {}) else getattr(holder, name)
        raw = orig.__func__ if isinstance(orig, (classmethod, staticmethod)) else orig
        inj = self

        def wrapper(*a, **kw):
            if after:
                res = raw(*a, **kw)
            inj.count += 1
            if inj.count == inj.k:
                inj.fired = True
                raise InjectedFault(f"{inj.site} call #{inj.k}")
            return res if after else raw(*a, **kw)

        new = classmethod(wrapper) if isinstance(orig, classmethod) else wrapper
        setattr(holder, name, new)
        self.undo.append((holder, name, orig))

    def __enter__(self):
        n = self.node
        s = self.site
        if s == "form_edge":
            Form = n.mod("beyond.orbits.forms").Form
            for nm in [x for x in Form.__dict__ if x.startswith("_") and "_to_" in x]:
                self._wrap(Form, nm)
        elif s == "expand":
            self._wrap(n.mod("beyond.frames.orient"), "expand")
        elif s == "center":
            self._wrap(n.mod("beyond.frames.center").Center, "convert_to")
        elif s == "transform_end":
            self._wrap(n.mod("beyond.frames.frames").Frame, "transform", after=True)
        elif s == "to_local":
            self._wrap(n.mod("beyond.orbits.cov"), "to_local")
        elif s == "get_frame":
            self._wrap(n.mod("beyond.orbits.cov"), "get_frame")
        return self

    def __exit__(self, *exc):
        for holder, name, orig in reversed(self.undo):
            setattr(holder, name, orig)
        return False


# ----------------------------------------------------------------------- run


class Heap:
    def __init__(self, plan, ctx):
        self.ctx = ctx
        self.plan = plan
        self.node = Node("sys")
        self.other = None
        n = self.node
        with n:
            n.config.update({"eop": {"missing_policy": "pass"}})
            self.setup_env(n)
            self.objs = []
            self.group = []  # as_orbit()/as_statevector() hand the *same* cov / maneuver list / metadata objects to their result (only
            # values and metadata preservation is stated for them): objects of one group may share those by design
            self.heap_frame = None  # index of the heap object registered as the frame 'HeapF' (at most one per run)
            self.rel = []  # relatives: index of the object each one was derived from
            for spec in plan["knobs"]["objects"]:
                self.objs.append(build_object(n, spec, None))
                self.rel.append(None)
                self.group.append(len(self.group))

    def setup_env(self, n):
        """Frames the histories may target: a station, an orbit-attached and an ephemeris-attached frame."""
        st = n.mod("beyond.frames.stations")
        st.create_station("Sta", (43.6, 1.44, 172.0))
        Kepler = n.mod("beyond.propagators.kepler").Kepler
        d0 = n.Date(57000, 0.0)
        ref = n.Orbit([7.2e6, 0.01, 0.9, 1.0, 2.0, 3.0], d0, "keplerian", "EME2000", Kepler())
        n.frames.orbit2frame("OrbF", ref)
        td = n.timedelta
        eph = ref.ephem(start=d0, stop=td(hours=2), step=td(minutes=3))
        n.frames.orbit2frame("EphF", eph)  # covers [57000, 57000+2h] only: out of range for every heap state

    # ---------------------------------------------------------------- checks
    def others_unchanged(self, before, receiver, where):
        ctx = self.ctx
        for j, o in enumerate(self.objs):
            if j == receiver or j >= len(before):
                continue
            ctx.checks += 1
            now = snap(o)
            if receiver is not None and receiver < len(self.group) and self.group[j] == self.group[receiver]:
                for k_ in ("meta", "mans", "cov", "cov_frame", "cov_itrf"):
                    now[k_] = before[j][k_]
            if now != before[j]:
                diff = [k for k in now if now[k] != before[j][k]]
                related = self.related(j, receiver)
                ctx.violate(
                    "no-aliasing",
                    {"kind": "other_object_changed", "fields": ",".join(sorted(set(d.split(".")[0] for d in diff))), "related": related},
                    f"{where}: object {j} changed ({', '.join(diff)}) although the operation was applied to object {receiver}" + (" (one is a copy / conversion of the other)" if related else ""),
                )

    def touched_before(self, idx, t):
        """True when the coordinates (or covariance terms) of object idx, or of an object it derives from at the time it was derived,
        were assigned element by element at or before step t: the covariance keeps the state it was attached to."""
        seen = set()
        while idx is not None and idx not in seen:
            seen.add(idx)
            if idx in getattr(self, "assigned_at", {}) and self.assigned_at[idx] <= t:
                return True
            t = min(t, getattr(self, "born_at", {}).get(idx, -1))
            idx = self.rel[idx] if idx < len(self.rel) else None
        return False

    def related(self, a, b):
        if a is None or b is None:
            return False
        seen = set()

        def root(x):
            while self.rel[x] is not None and x not in seen:
                seen.add(x)
                x = self.rel[x]
            return x

        return root(a) == root(b)

    def no_shared_memory(self, where):
        ctx = self.ctx
        for a in range(len(self.objs)):
            for b in range(a + 1, len(self.objs)):
                oa, ob = self.objs[a], self.objs[b]
                ctx.checks += 1
                if np.shares_memory(np.asarray(oa), np.asarray(ob)):
                    ctx.violate("no-aliasing", {"kind": "shared_coordinates_buffer"}, f"{where}: objects {a} and {b} share their coordinate buffer")
                if self.group[a] == self.group[b]:
                    continue
                ca, cb = oa._data.get("cov"), ob._data.get("cov")
                if ca is not None and cb is not None and (ca is cb or np.shares_memory(np.asarray(ca), np.asarray(cb))):
                    ctx.violate("no-aliasing", {"kind": "shared_covariance"}, f"{where}: objects {a} and {b} share their covariance")
                pa, pb = oa._data.get("propagator"), ob._data.get("propagator")
                if pa is not None and pa is pb and not isinstance(pa, (str, type)) and self.related(a, b):
                    # the propagator holds the orbit it is bound to: an orbit and its copy sharing one propagator object share mutable data
                    # (iterating both at the same time makes one follow the other)
                    ctx.violate("no-aliasing", {"kind": "shared_propagator"}, f"{where}: objects {a} and {b} (one is a copy of the other) share one propagator object {type(pa).__name__}")
                ma, mb = oa._data.get("maneuvers"), ob._data.get("maneuvers")
                if isinstance(ma, list) and ma is mb:
                    ctx.violate("no-aliasing", {"kind": "shared_maneuver_list"}, f"{where}: objects {a} and {b} share one maneuver list object")
                for k, v in oa._data.items():
                    if isinstance(v, dict) and ob._data.get(k) is v:
                        ctx.violate("no-aliasing", {"kind": "shared_metadata_dict", "key": k}, f"{where}: objects {a} and {b} share the metadata dict '{k}'")

    def access(self, j, where):
        """Element access by name, alias or index agrees with the current form's ordering."""
        ctx = self.ctx
        o = self.objs[j]
        forms = self.node.mod("beyond.orbits.forms")
        names = o.form.param_names
        ctx.probe("access_checked")
        for i, nm in enumerate(names):
            v = float(np.asarray(o)[i])
            ways = [("attr", nm), ("key", nm)] + [(w, al) for al, tgt in forms.Form.alt.items() if tgt == nm for w in ("attr", "key")]
            for how, name in ways:
                ctx.checks += 1
                try:
                    got = getattr(o, name) if how == "attr" else o[name]
                except Exception as e:  # noqa
                    ctx.violate(
                        "element-access",
                        {"kind": "name_access_fails", "form": o.form.name, "name": name},
                        f"{where}: object {j} in form '{o.form.name}': element #{i} is '{nm}' but {'obj.' + name if how == 'attr' else 'obj[' + repr(name) + ']'} raises {type(e).__name__}: {e}",
                    )
                    continue
                if not (float(got) == v or (np.isnan(got) and np.isnan(v))):
                    ctx.violate(
                        "element-access",
                        {"kind": "name_access_wrong_element", "form": o.form.name, "name": name},
                        f"{where}: object {j} in form '{o.form.name}': {name} gives {got!r} but element #{i} ('{nm}') is {v!r}",
                    )
        resolved = {forms.Form.alt.get(n_, n_) for n_ in names} | set(names)
        every_name = set()
        for fname_ in FORMS:
            try:
                every_name.update(forms.get_form(fname_).param_names)
            except Exception:  # noqa
                pass
        for foreign in sorted(every_name - resolved):
            if forms.Form.alt.get(foreign) in names:
                continue  # e.g. 'theta': the literal name of a cylindrical element and the documented alias of the spherical one
            ctx.checks += 1
            try:
                getattr(o, foreign)
                ok = False
            except AttributeError:
                ok = True
            except Exception:  # noqa
                ok = False
            if ok:
                ctx.probe("foreign_name_rejected")
            else:
                ctx.violate("element-access", {"kind": "foreign_name_accepted", "form": o.form.name, "name": foreign}, f"{where}: object {j} in form '{o.form.name}' answers to '{foreign}', an element name of another form")

    def derived_view(self, j, where):
        """The derived quantities an object reports about itself (obj.infos) describe its *current* values: they are observable
        data too, so a change of one object (or of the object itself) must never leave another object's - or its own - report behind."""
        ctx = self.ctx
        o = self.objs[j]
        if not finite(o):
            return
        try:
            kep = np.array(o.copy(form="keplerian"), dtype=float)
            sph = np.array(o.copy(form="spherical"), dtype=float)
        except Exception:  # noqa
            return
        if not (np.all(np.isfinite(kep)) and np.all(np.isfinite(sph))):
            return
        ctx.checks += 1
        try:
            inf = o.infos
            got_k = np.array(inf.kep, dtype=float)
            got_s = np.array(inf.sphe, dtype=float)
            r = float(inf.r)
        except Exception as e:  # noqa
            ctx.violate("no-aliasing", {"kind": "infos_unusable"}, f"{where}: obj.infos of object {j} raises {type(e).__name__}: {e}")
            return
        ctx.probe("infos_checked")
        if got_k.tobytes() != kep.tobytes() or got_s.tobytes() != sph.tobytes() or r != sph[0]:
            ctx.violate(
                "no-aliasing",
                {"kind": "infos_describes_other_values", "related": any(self.related(j, x) for x in range(len(self.objs)) if x != j)},
                f"{where}: object {j}: infos reports keplerian elements {got_k} / radius {r} but the object's own values give {kep} / {sph[0]}",
            )

    # ------------------------------------------------------------ operations
    def resolve_frame(self, o, name, fail):
        if fail and fail["kind"] == "natural":
            return {"unknown": "NoSuchFrame", "hill": "Hill", "ephem_out": "EphF"}[fail["what"]]
        if name == "HeapF" and self.heap_frame is None:
            return "TEME"
        return name

    def run(self):
        ctx = self.ctx
        n = self.node
        for step, op in enumerate(self.plan["ops"]):
            if not self.objs or len(self.objs) >= 7:
                break
            j = op["obj"] % len(self.objs)
            o = self.objs[j]
            k = op["op"]
            fail = op.get("fail")
            where = f"op#{step} {k} on object {j}"
            if not finite(o):
                # e.g. keplerian elements of a state expressed in a rotating frame: NaN is not a failure, and nothing is stated about it
                ctx.probe("skipped_nonfinite_receiver")
                continue
            with n:
                before = [snap(x) for x in self.objs]
                phys_before = phys(o) if k in ("set_form", "set_frame", "cov_frame") else None
                self.step = step
                if not hasattr(self, "born_at"):
                    self.born_at, self.assigned_at = {i_: -1 for i_ in range(len(self.objs))}, {}
                if k in ("assign", "cov_set"):
                    self.assigned_at[j] = step
                getattr(self, "op_" + k)(j, o, op, fail, before, where, phys_before)
                for i_ in range(len(self.objs)):
                    self.born_at.setdefault(i_, step)
                self.others_unchanged(before, self.receiver if hasattr(self, "receiver") else j, where)
                self.no_shared_memory(where)
                for jj in range(len(self.objs)):
                    self.derived_view(jj, where)
            ctx.ops_done += 1
            ctx.ev(k, j, fhex(np.asarray(self.objs[j], dtype=float)), self.objs[j].form.name, self.objs[j].frame.name, "fail" if fail else "")
        with n:
            for j in range(len(self.objs)):
                if all(np.isfinite(np.asarray(self.objs[j], dtype=float))):
                    self.access(j, "end of history")

    def attempt(self, fn, fail, sig):
        """Run fn (a converting operation), with the planned fault.  Returns the exception or None."""
        ctx = self.ctx
        inj = None
        try:
            if fail and fail["kind"] == "inject":
                with Injector(self.node, fail["site"], fail["k"]) as inj:
                    fn()
            else:
                fn()
            exc = None
        except Exception as e:  # noqa
            exc = e
        if exc is not None:
            if isinstance(exc, InjectedFault):
                ctx.fault("callee_fail_injected:" + fail["site"])
                ctx.probe("fault_fired_injected")
            else:
                ctx.fault("callee_fail_natural")
                ctx.probe("fault_fired_natural")
        ctx.sig.append((sig, (fail or {}).get("site") or (fail or {}).get("what") or "", type(exc).__name__ if exc else ""))
        return exc

    def check_atomic(self, j, before, phys_before, exc, where, opname, target):
        """After a raising form=/frame=/cov.frame=: previous, consistent form/frame/values; still usable."""
        ctx = self.ctx
        o = self.objs[j]
        ctx.probe("atomic_failure_checked")
        now = snap(o)
        b = before[j]
        site = getattr(exc, "args", [""])[0] if isinstance(exc, InjectedFault) else type(exc).__name__
        try:
            tname = self.node.frames.get_frame(target).name if opname == "frame=" else None
        except Exception:  # noqa
            tname = None
        # did the failure come after the state itself had been converted and relabelled?
        stage = "post_commit" if (opname == "frame=" and tname is not None and now["frame"] == tname and now["vals"] != b["vals"]) else "pre_commit"
        fp = {"kind": "not_atomic", "op": opname, "site": str(site).split(" call")[0], "had_cov": b["cov"] is not None, "stage": stage}
        ctx.checks += 1
        labels = [k for k in ("form", "frame", "cov_frame", "date", "meta", "mans", "type") if now[k] != b[k]]
        if labels:
            ctx.violate(
                "atomic-change",
                dict(fp, what="labels:" + ",".join(labels)),
                f"{where}: {opname} -> {target} raised {type(exc).__name__}: {exc}; the object is left with {', '.join(f'{k}={now[k]!r} (was {b[k]!r})' for k in labels)}",
            )
            return
        if now["vals"] != b["vals"]:
            ctx.probe("finally_restored_form_after_failure")
            vb = np.frombuffer(b["vals"])
            vn = np.frombuffer(now["vals"])
            ok = np.allclose(vn, vb, rtol=1e-9, atol=1e-9 * max(1.0, float(np.max(np.abs(vb[np.isfinite(vb)]))) if np.any(np.isfinite(vb)) else 1.0), equal_nan=True)
            try:
                ok = ok or close(phys(o), phys_before)
            except Exception:  # noqa
                pass
            if not ok:
                ctx.violate(
                    "atomic-change",
                    dict(fp, what="values"),
                    f"{where}: {opname} -> {target} raised {type(exc).__name__}: {exc}; labels are unchanged but the values moved: {vn} (was {vb})",
                )
                return
        if now["cov"] != b["cov"]:
            cb, cn = np.frombuffer(b["cov"]), np.frombuffer(now["cov"])
            if not np.allclose(cn, cb, rtol=1e-9, atol=1e-12 * float(np.max(np.abs(cb)))):
                ctx.violate("atomic-change", dict(fp, what="covariance"), f"{where}: {opname} -> {target} raised {type(exc).__name__}: {exc}; the covariance values changed while its frame label did not")
                return
        # still usable
        try:
            c = o.copy(form="cartesian")
            ctx.probe("still_usable_after_failure")
            if phys_before is not None and not close(np.array(c, dtype=float), phys_before):
                ctx.violate("atomic-change", dict(fp, what="values"), f"{where}: after the failed {opname} the object converts to different cartesian values than before")
        except Exception as e:  # noqa
            ctx.violate("atomic-change", dict(fp, what="unusable"), f"{where}: after the failed {opname} the object cannot be copied to cartesian form any more: {type(e).__name__}: {e}")

    # -- copy ---------------------------------------------------------------
    def op_copy(self, j, o, op, fail, before, where, _):
        ctx = self.ctx
        kw = {}
        if op.get("form"):
            kw["form"] = op["form"]
        if op.get("frame"):
            kw["frame"] = op["frame"]
        if fail and fail["kind"] == "natural":
            if fail["what"] == "unknown" and ctx.n % 2 == 0 and "form" in kw:
                kw["form"] = "no_such_form"
            else:
                kw["frame"] = self.resolve_frame(o, None, fail)
        if fail and fail["kind"] == "inject" and kw.get("frame") == "EphF":
            kw["frame"] = "TEME"
        if kw.get("frame") == "HeapF":
            if self.heap_frame is None or self.heap_frame == j:
                kw["frame"] = "TEME"
            else:
                ctx.probe("converted_into_frame_of_heap_object")
        if op.get("same") is not None and not fail:
            kw = {"same": self.objs[op["same"] % len(self.objs)]}
        res = {}
        exc = self.attempt(lambda: res.setdefault("c", o.copy(**kw)), fail, "copy")
        self.receiver = j
        ctx.checks += 1
        if snap(o) != before[j]:
            ctx.violate("pure-conversion", {"kind": "receiver_changed_by_copy", "failed": exc is not None}, f"{where}: copy({kw}) {'raised ' + type(exc).__name__ + ' and ' if exc else ''}modified the object it was called on")
        if exc is not None:
            if not fail and not isinstance(exc, Exception):
                pass
            if not fail:
                # copy into a frame/form that exists must succeed, unless the frame cannot serve this date (EphF) / state
                if kw.get("frame") not in ("EphF",) and not (kw.get("same") is not None and kw["same"].frame.name == "EphF"):
                    ctx.violate("pure-conversion", {"kind": "unexpected_exception", "op": "copy"}, f"{where}: copy({ {k: (v if isinstance(v, str) else '<obj>') for k, v in kw.items()} }) raised {type(exc).__name__}: {exc}")
            return
        c = res["c"]
        self.objs.append(c)
        self.rel.append(j)
        self.group.append(max(self.group) + 1)
        ctx.checks += 1
        if type(c) is not type(o):
            ctx.violate("pure-conversion", {"kind": "copy_changes_type"}, f"{where}: copy of a {type(o).__name__} is a {type(c).__name__}")
        if not kw:
            if snap(c) != dict(before[j], mans=snap(c)["mans"], cov=snap(c)["cov"], cov_frame=snap(c)["cov_frame"], prop=snap(c)["prop"]) or (before[j]["cov"] is not None and snap(c)["cov"] != before[j]["cov"]):
                ctx.violate("pure-conversion", {"kind": "plain_copy_differs"}, f"{where}: a plain copy() differs from its source")

    # -- in-place conversions ------------------------------------------------
    def op_set_form(self, j, o, op, fail, before, where, phys_before):
        ctx = self.ctx
        target = op["form"]
        if fail and fail["kind"] == "natural":
            target = "no_such_form"

        def do():
            o.form = target

        exc = self.attempt(do, fail, "set_form")
        self.receiver = j
        if exc is not None:
            self.check_atomic(j, before, phys_before, exc, where, "form=", target)
            return
        ctx.checks += 1
        forms = self.node.mod("beyond.orbits.forms")
        if o.form is not forms.get_form(target):
            ctx.violate("atomic-change", {"kind": "wrong_label_after_success", "op": "form="}, f"{where}: form = {target!r} succeeded but the object says form {o.form.name}")
        if np.all(np.isfinite(np.asarray(o, dtype=float))):
            self.access(j, where)

    def op_set_frame(self, j, o, op, fail, before, where, phys_before):
        ctx = self.ctx
        target = self.resolve_frame(o, op["frame"], fail)
        if fail and fail["kind"] == "inject" and target == "EphF":
            target = "TEME"  # one fault at a time: EphF fails by itself for these dates
        had_cov_same = before[j]["cov"] is not None and before[j]["cov_frame"] == before[j]["frame"]

        def do():
            o.frame = target

        exc = self.attempt(do, fail, "set_frame")
        self.receiver = j
        if exc is not None:
            if not fail and target != "EphF":
                ctx.violate("atomic-change", {"kind": "unexpected_exception", "op": "frame="}, f"{where}: frame = {target!r} raised {type(exc).__name__}: {exc}")
            self.check_atomic(j, before, phys_before, exc, where, "frame=", target)
            return
        now = snap(o)
        ctx.checks += 1
        exp_name = self.node.frames.get_frame(target).name
        if now["frame"] != exp_name or now["form"] != before[j]["form"]:
            ctx.violate("atomic-change", {"kind": "wrong_label_after_success", "op": "frame="}, f"{where}: frame = {target!r} succeeded but the object says frame {now['frame']}, form {now['form']} (was {before[j]['form']})")
        if had_cov_same:
            ctx.probe("drag_cov_with_state")
            if now["cov_frame"] != exp_name:
                ctx.violate("atomic-change", {"kind": "covariance_did_not_follow"}, f"{where}: the covariance was expressed in the state's frame {before[j]['frame']} but did not follow it to {exp_name} (still {now['cov_frame']})")

    def op_cov_frame(self, j, o, op, fail, before, where, phys_before):
        ctx = self.ctx
        if o.cov is None:
            return
        target = op["frame"]
        if fail and fail["kind"] == "natural":
            target = {"unknown": "NoSuchFrame", "hill": "Hill", "ephem_out": "EphF"}[fail["what"]]

        def do():
            o.cov.frame = target

        exc = self.attempt(do, fail, "cov_frame")
        self.receiver = j
        if exc is not None:
            self.check_atomic(j, before, phys_before, exc, where, "cov.frame=", target)
            return
        now = snap(o)
        ctx.checks += 1
        if (now["vals"], now["form"], now["frame"]) != (before[j]["vals"], before[j]["form"], before[j]["frame"]):
            ctx.violate("no-aliasing", {"kind": "state_changed_by_cov_frame"}, f"{where}: cov.frame = {target!r} changed the state vector itself")
        if target in ("QSW", "TNW") and before[j]["cov_frame"] == before[j]["frame"] and before[j]["frame"] in INERTIAL and phys_before is not None and np.all(np.isfinite(phys_before)) and not self.touched_before(j, self.step):
            # the local axes are those of this object's own position and velocity, whatever happened to the object it was copied from
            from checks.c14 import local_axes, bd

            L = bd(local_axes(target, phys_before[:3], phys_before[3:]))
            C0 = np.frombuffer(before[j]["cov"]).reshape(6, 6)
            want = L @ C0 @ L.T
            got = np.frombuffer(now["cov"]).reshape(6, 6)
            d_ = np.sqrt(np.abs(np.diag(want))) + 1e-300
            err = float(np.max(np.abs(got - want) / np.outer(d_, d_)))
            ctx.checks += 1
            ctx.probe("local_covariance_against_own_axes")
            if err > 1e-6:  # (rounding of the form round trips of the state, amplified by ill-conditioned matrices: 1.4e-8 seen in a thorough soak; another state gives 1e-3 or more)
                ctx.violate("no-aliasing", {"kind": "covariance_converted_with_another_state"}, f"{where}: the covariance of object {j} converted to {target} differs from the rotation built on this object's own position and velocity (relative {err:.3e}): it was converted with the state of another object")

    # -- assignments -----------------------------------------------------------
    def op_assign(self, j, o, op, fail, before, where, _):
        ctx = self.ctx
        i = op["i"]
        names = o.form.param_names
        forms = self.node.mod("beyond.orbits.forms")
        old = float(np.asarray(o)[i])
        new = old * op["scale"] if np.isfinite(old) and old != 0 else 1.0
        how = op["how"]
        self.receiver = j
        try:
            if how == "index":
                o[i] = new
            elif how == "name":
                setattr(o, names[i], new)
            elif how == "key":
                o[names[i]] = new
            elif how == "slice":
                o[i : i + 1] = [new]
            else:
                al = [a for a, t in forms.Form.alt.items() if t == names[i]]
                if al:
                    setattr(o, al[0], new)
                else:
                    o[i] = new
        except Exception as e:  # noqa
            ctx.violate("element-access", {"kind": "name_assignment_fails", "form": o.form.name, "name": names[i], "how": how}, f"{where}: assigning element #{i} ('{names[i]}') by {how} raised {type(e).__name__}: {e}")
            return
        vals = np.asarray(o, dtype=float)
        exp = np.frombuffer(before[j]["vals"]).copy()
        exp[i] = new
        ctx.checks += 1
        if vals.tobytes() != exp.tobytes():
            ctx.violate("element-access", {"kind": "assignment_wrong_element", "form": o.form.name, "how": how}, f"{where}: assigning element #{i} ('{names[i]}') by {how} gives {vals}, expected {exp}")
        if any(self.related(j, x) for x in range(len(self.objs)) if x != j):
            ctx.probe("mutation_with_relatives")
            ctx.nontrivial = True

    def op_meta(self, j, o, op, fail, before, where, _):
        self.receiver = j
        if op.get("inner") and isinstance(o._data.get("user"), dict):
            o.user["k"] = 99  # change inside a metadata dict
        else:
            v = op["value"]
            if op["key"] == "cospar_id":
                v = "2019-001B"  # an international designator has a format (the TLE writer of a TLE-born orbit reads it)
            elif op["key"] == "name" and not isinstance(v, str):
                v = "CHANGED-" + str(v)[:6]  # a name is a text
            setattr(o, op["key"], dict(v) if isinstance(v, dict) else v)
        if any(self.related(j, x) for x in range(len(self.objs)) if x != j):
            self.ctx.probe("mutation_with_relatives")
            self.ctx.nontrivial = True

    def op_man(self, j, o, op, fail, before, where, _):
        self.receiver = j
        man = self.node.mod("beyond.orbits.man")
        td = self.node.timedelta
        how = op["how"]
        if how == "append":
            o.maneuvers.append(man.ImpulsiveMan(o.date + td(minutes=55), [0.0, 0.0, 1.0]))
        elif how == "remove" and o.maneuvers:
            o.maneuvers.pop()
        elif how == "replace":
            o.maneuvers = [man.ImpulsiveMan(o.date + td(minutes=5), [0.5, 0.0, 0.0], frame="QSW")]
        elif how == "clear":
            o.maneuvers.clear() if o.maneuvers else None
        if any(self.related(j, x) for x in range(len(self.objs)) if x != j):
            self.ctx.probe("mutation_with_relatives")
            self.ctx.nontrivial = True

    def op_cov_set(self, j, o, op, fail, before, where, _):
        self.receiver = j
        if o.cov is None:
            return
        o.cov[op["i"], op["j"]] = o.cov[op["i"], op["j"]] * 1.5 + 1.0
        o.cov[op["j"], op["i"]] = o.cov[op["i"], op["j"]]
        if any(self.related(j, x) for x in range(len(self.objs)) if x != j):
            self.ctx.probe("mutation_with_relatives")
            self.ctx.nontrivial = True

    # -- StateVector <-> Orbit, pickle ------------------------------------------
    def same_content(self, a_snap, b, where, what, ignore=("prop", "type", "mans")):
        ctx = self.ctx
        bs = snap(b)
        ctx.checks += 1
        diff = [k for k in bs if k not in ignore and bs[k] != a_snap[k]]
        if diff:
            ctx.violate("round-trip", {"kind": "content_lost", "via": what, "fields": ",".join(diff)}, f"{where}: {what} does not preserve {', '.join(diff)}: " + "; ".join(f"{k}: {a_snap[k]!r} -> {bs[k]!r}" for k in diff if k not in ("vals", "cov")))
            return False
        return True

    def op_as_orbit(self, j, o, op, fail, before, where, _):
        self.receiver = j
        prop = self.node.mod("beyond.propagators.kepler").Kepler()
        new = o.as_orbit(prop)
        self.objs.append(new)
        self.rel.append(j)
        self.group.append(self.group[j])
        self.same_content(before[j], new, where, "as_orbit")

    def op_as_sv(self, j, o, op, fail, before, where, _):
        self.receiver = j
        if not hasattr(o, "as_statevector"):
            return
        new = o.as_statevector()
        self.objs.append(new)
        self.rel.append(j)
        self.group.append(self.group[j])
        self.same_content(before[j], new, where, "as_statevector")

    def op_pickle(self, j, o, op, fail, before, where, _):
        ctx = self.ctx
        self.receiver = j
        where_ = op["where"]
        try:
            data = pickle.dumps(o)
        except Exception as e:  # noqa
            ctx.violate("round-trip", {"kind": "pickle_fails", "stage": "dumps"}, f"{where}: pickle.dumps raised {type(e).__name__}: {e}")
            return
        if snap(o) != before[j]:
            ctx.violate("pure-conversion", {"kind": "receiver_changed_by_pickle"}, f"{where}: pickling modified the object")
        if before[j]["cov"] is not None:
            ctx.probe("pickle_with_cov")
        if where_ in ("copy", "deepcopy"):
            # the standard copy module: copy.copy(obj) / copy.deepcopy(obj) are copies like any other - independent and usable
            import copy as _copy

            ctx.probe("copy_module_used")
            try:
                new = (_copy.copy if where_ == "copy" else _copy.deepcopy)(o)
            except Exception as e:  # noqa
                ctx.violate("round-trip", {"kind": "copy_module_fails", "how": where_}, f"{where}: copy.{where_}(obj) raised {type(e).__name__}: {e}")
                return
            if snap(o) != before[j]:
                ctx.violate("pure-conversion", {"kind": "receiver_changed_by_copy_module"}, f"{where}: copy.{where_}() modified the object")
            self.check_unpickled(j, new, before, where + f" (copy.{where_})", self.node, how="copy." + where_)
            try:
                new.name = "COPY-" + str(len(self.objs))
            except Exception:  # noqa
                return
            ctx.checks += 1
            if snap(o) != before[j]:
                ctx.violate("no-aliasing", {"kind": "shared_metadata_dict", "via": "copy." + where_}, f"{where}: a name given to the result of copy.{where_}(obj) shows in the object it was copied from")
                return
            if self.ctx.violation is None:
                self.objs.append(new)
                self.rel.append(j)
                self.group.append(max(self.group) + 1)
            return
        if where_ == "oob":
            # pickle protocol 5 with out-of-band buffers (PEP 574: what multiprocessing / dask use to ship arrays without copies):
            # the unpickled object is still a copy
            ctx.probe("pickle_out_of_band")
            try:
                bufs = []
                data5 = pickle.dumps(o, protocol=5, buffer_callback=bufs.append)
                new = pickle.loads(data5, buffers=bufs)
            except Exception as e:  # noqa
                ctx.violate("round-trip", {"kind": "pickle_fails", "stage": "out_of_band"}, f"{where}: pickling with out-of-band buffers raised {type(e).__name__}: {e}")
                return
            self.check_unpickled(j, new, before, where + " (out-of-band buffers)", self.node)
            if self.ctx.violation is None:
                self.objs.append(new)
                self.rel.append(j)
                self.group.append(max(self.group) + 1)
            return
        if where_ == "same":
            try:
                new = pickle.loads(data)
            except Exception as e:  # noqa
                ctx.violate("round-trip", {"kind": "pickle_fails", "stage": "loads"}, f"{where}: pickle.loads raised {type(e).__name__}: {e}")
                return
            self.check_unpickled(j, new, before, where, self.node)
            self.objs.append(new)
            self.rel.append(None)  # a pickle shares nothing by construction
            self.group.append(max(self.group) + 1)
            return
        if "HeapF" in (before[j]["frame"], before[j]["cov_frame"]):
            return  # the frame attached to a heap object only exists in this process: a state can only be read where its frame exists
        # another process (fresh node; F8 restart = the same code, nothing but the bytes survives)
        ctx.fault("restart" if where_ == "restart" else "msg_to_other_node")
        ctx.probe("pickle_across_nodes")
        other = Node("peer")
        with other:
            other.config.update({"eop": {"missing_policy": "pass"}})
            # the peer knows the same user frames (a state can only be read where its frame exists)
            self.setup_env(other)
            try:
                new = pickle.loads(data)
            except Exception as e:  # noqa
                ctx.violate("round-trip", {"kind": "pickle_fails", "stage": "loads", "where": where_}, f"{where}: pickle.loads on another node raised {type(e).__name__}: {e}")
                return
            self.check_unpickled(j, new, before, where + f" ({where_})", other)

    def check_unpickled(self, j, new, before, where, node, how="pickle"):
        ctx = self.ctx
        try:
            ok = self.same_content(before[j], new, where, "pickle")
        except Exception as e:  # noqa
            ctx.violate("round-trip", {"kind": "unpickled_object_broken" if how == "pickle" else "copied_object_broken", "had_cov": before[j]["cov"] is not None, "how": how}, f"{where}: the unpickled object cannot even be inspected: {type(e).__name__}: {e}")
            return
        if not ok:
            return
        # the result converts like the original
        ctx.checks += 1
        src = self.objs[j]
        tgt = "TEME" if before[j]["frame"] != "TEME" else "EME2000"
        try:
            a = np.array(new.copy(frame=tgt, form="cartesian"), dtype=float)
        except Exception as e:  # noqa
            ctx.violate("round-trip", {"kind": "unpickled_object_broken" if how == "pickle" else "copied_object_broken", "had_cov": before[j]["cov"] is not None, "how": how}, f"{where}: the unpickled object cannot be converted to {tgt}: {type(e).__name__}: {e}")
            return
        with self.node:
            b = np.array(src.copy(frame=tgt, form="cartesian"), dtype=float)
        if not close(a, b, rel=1e-12):
            ctx.violate("round-trip", {"kind": "unpickled_converts_differently"}, f"{where}: the unpickled object converts to {tgt} as {a}, the original as {b}")
        if before[j]["cov"] is not None:
            # in place as well as through a copy (a copy rebuilds part of the covariance's own state)
            try:
                for loc in ("QSW", "TOD"):
                    n2 = pickle.loads(pickle.dumps(new))
                    n2.cov.frame = loc
                    with self.node:
                        s2 = src.copy()
                        s2.cov.frame = loc
                    if np.all(np.isfinite(np.asarray(s2.cov, dtype=float))) and not np.allclose(np.asarray(n2.cov, dtype=float), np.asarray(s2.cov, dtype=float), rtol=1e-9, atol=1e-9):
                        ctx.violate("round-trip", {"kind": "unpickled_cov_converts_differently", "in_place": True}, f"{where}: the covariance of the unpickled object, converted in place to {loc}, differs from the original's")
                        return
            except Exception as e:  # noqa
                ctx.violate("round-trip", {"kind": "unpickled_object_broken", "had_cov": True}, f"{where}: the covariance of the unpickled object cannot change frame in place: {type(e).__name__}: {e}")
                return
            try:
                c2 = new.cov.copy(frame=tgt)
                with self.node:
                    c1 = src.cov.copy(frame=tgt)
                if not np.allclose(np.asarray(c1, dtype=float), np.asarray(c2, dtype=float), rtol=1e-9, atol=1e-9, equal_nan=True):
                    ctx.violate("round-trip", {"kind": "unpickled_cov_converts_differently"}, f"{where}: the covariance of the unpickled object converts differently to {tgt}")
            except Exception as e:  # noqa
                ctx.violate("round-trip", {"kind": "unpickled_object_broken", "had_cov": True}, f"{where}: the covariance of the unpickled object cannot change frame: {type(e).__name__}: {e}")

    def op_set_date(self, j, o, op, fail, before, where, _):
        """obj.date = <another date>: the coordinates and everything else stay what they are; nothing shows in the other objects."""
        ctx = self.ctx
        self.receiver = j
        try:
            o.date = o.date + self.node.timedelta(seconds=op["dt_s"])
        except Exception as e:  # noqa
            ctx.violate("element-access", {"kind": "date_assignment_fails", "exc": type(e).__name__}, f"{where}: obj.date = ... raised {type(e).__name__}: {e}")
            return
        ctx.checks += 1
        ctx.probe("date_assigned")
        now = snap(o)
        if (now["vals"], now["form"], now["frame"], now["meta"], now["cov"]) != (before[j]["vals"], before[j]["form"], before[j]["frame"], before[j]["meta"], before[j]["cov"]):
            ctx.violate("no-aliasing", {"kind": "date_assignment_changed_something_else"}, f"{where}: assigning the date changed the coordinates, labels, metadata or covariance values of the object")

    def op_hill_pickle(self, j, o, op, fail, before, where, _):
        """Two Hill frames of different orientations exist in the process; a state attached to the first one goes through a pickle
        (same or another process, which created the same two frames): same values, same frame."""
        ctx = self.ctx
        self.receiver = None
        n = self.node

        def make(node):
            fr = node.mod("beyond.frames.frames")
            cw = node.mod("beyond.propagators.cw")
            first = fr.HillFrame(op["first"])
            fr.HillFrame("TNW" if op["first"] == "QSW" else "QSW")
            prop = cw.ClohessyWiltshire(7.0e6, frame=first)
            return node.Orbit([100.0, -2000.0, 30.0, 0.1, -0.2, 0.05], node.Date(58000, 0.0), "cartesian", first, prop)

        try:
            orb = make(n)
            label = (orb.frame.name, getattr(orb.frame.orientation, "name", str(orb.frame.orientation)))
            vals = np.array(orb, dtype=float).tobytes()
            data = pickle.dumps(orb)
            if op["where"] == "other":
                peer = Node("peer-hill")
                with peer:
                    peer.config.update({"eop": {"missing_policy": "pass"}})
                    make(peer)
                    data = pickle.dumps(pickle.loads(data))
            new = pickle.loads(data)
            got = (new.frame.name, getattr(new.frame.orientation, "name", str(new.frame.orientation)))
            same_vals = np.array(new, dtype=float).tobytes() == vals
        except Exception as e:  # noqa
            ctx.violate("round-trip", {"kind": "pickle_fails", "stage": "hill"}, f"{where}: pickling a state attached to a Hill frame raised {type(e).__name__}: {e}")
            return
        ctx.checks += 1
        ctx.probe("hill_frame_state_pickled")
        if got != label or not same_vals:
            ctx.violate("round-trip", {"kind": "content_lost", "what": "hill_frame"}, f"{where}: a state attached to the Hill frame {label} comes out of a pickle attached to {got}" + ("" if same_vals else " with other values"))

    def op_infos(self, j, o, op, fail, before, where, _):
        """Reading the derived quantities is a pure query."""
        self.receiver = j
        try:
            inf = o.infos
            _ = (inf.kep, inf.sphe, inf.n, inf.pericenter, inf.energy)
        except Exception:  # noqa
            return
        self.ctx.checks += 1
        if snap(o) != before[j]:
            self.ctx.violate("pure-conversion", {"kind": "receiver_changed_by_infos"}, f"{where}: reading obj.infos modified the object")
            return
        # what infos hands out (the state in keplerian / spherical form) belongs to the caller
        for nm_ in ("kep", "sphe"):
            try:
                k_ = getattr(o.infos, nm_)
                k_[0] = float(k_[0]) * 1.001
                k_.form = "cartesian"
            except Exception:  # noqa
                continue
            self.ctx.checks += 1
            self.ctx.probe("infos_result_changed_by_caller")
            if snap(o) != before[j]:
                self.ctx.violate("no-aliasing", {"kind": "infos_result_aliases_receiver", "which": nm_}, f"{where}: changing what obj.infos.{nm_} returned changed the object itself (form {before[j]['form']})")
                return

    def op_cov_from_cov(self, j, o, op, fail, before, where, _):
        """Cov(other_state, state.cov, None): the constructor's copy form gives the other state a covariance of its own."""
        ctx = self.ctx
        self.receiver = j
        if o.cov is None or len(self.objs) >= 6:
            return
        c = o.copy()
        c.cov = self.node.Cov(c, o.cov, None)
        self.objs.append(c)
        self.rel.append(j)
        self.group.append(max(self.group) + 1)
        ctx.probe("cov_built_from_cov")

    def op_as_frame(self, j, o, op, fail, before, where, _):
        """obj.as_frame(name, orientation=...): the object becomes the reference of a registered frame.  Conversions of *other*
        objects into that frame (later copy / frame= operations targeting 'HeapF') must leave the reference object alone."""
        ctx = self.ctx
        self.receiver = j
        if self.heap_frame is not None or o.frame.name not in INERTIAL + ROTATING:
            return
        kw = {"orientation": op["orient"]} if op.get("orient") else {}
        try:
            o.as_frame("HeapF", **kw)
        except Exception:  # noqa
            return
        self.heap_frame = j
        ctx.probe("heap_object_registered_as_frame")
        ctx.checks += 1
        if snap(o) != before[j]:
            ctx.violate("pure-conversion", {"kind": "receiver_changed_by_as_frame"}, f"{where}: as_frame() modified the object it was called on")

    def op_form_call(self, j, o, op, fail, before, where, _):
        """form(orbit, new_form): 'gives the result of the transformation without in-place modifications' - also when the
        target is the current form."""
        ctx = self.ctx
        self.receiver = j
        target = op.get("form") or o.form.name
        try:
            res = o.form(o, target)
        except Exception:  # noqa
            return
        ctx.checks += 1
        ctx.probe("form_call_checked")
        shares = np.shares_memory(np.asarray(res), np.asarray(o))
        try:
            res[0] = float(np.asarray(res)[0]) * 1.5 + 1.0  # the caller edits what it was given
        except Exception:  # noqa
            pass
        if snap(o) != before[j] or shares:
            ctx.violate(
                "pure-conversion",
                {"kind": "form_call_result_aliases_receiver", "identity": target == before[j]["form"]},
                f"{where}: form(obj, {target!r}) returned {'the object itself / a view on it' if shares else 'something'} and editing the result changed the object it was computed from",
            )

    def op_access(self, j, o, op, fail, before, where, _):
        self.receiver = j
        if np.all(np.isfinite(np.asarray(o, dtype=float))):
            self.access(j, where)


def run_plan(plan, ctx):
    h = Heap(plan, ctx)
    h.run()
    ctx.nontrivial = bool(getattr(ctx, "nontrivial", False) or ctx.probes.get("atomic_failure_checked") or ctx.probes.get("pickle_across_nodes"))
    ctx.state(tuple(o["op"] + ("!" if o.get("fail") else "") for o in plan["ops"]))


def simplify(plan):
    ops = plan["ops"]
    for idx, o in enumerate(ops):
        if o.get("fail"):
            c = dict(o)
            c.pop("fail")
            yield dict(plan, ops=ops[:idx] + [c] + ops[idx + 1 :])
    objs = plan["knobs"]["objects"]
    for idx, s in enumerate(objs):
        for key, val in (("cov", None), ("mans", 0), ("meta", {})):
            if s.get(key):
                yield dict(plan, knobs=dict(plan["knobs"], objects=objs[:idx] + [dict(s, **{key: val})] + objs[idx + 1 :]))
    if len(objs) > 1:
        yield dict(plan, knobs=dict(plan["knobs"], objects=objs[:1]))
