"""C14 - covariance frame changes are pure, path-independent rotations.

One run = one seeded history (<= 5 operations, + faults) of covariance / state frame changes on
states that start in a non-rotating frame with a symmetric PSD 6x6 covariance attached.  The
model tracks (C0, attach frame, F0, r0, v0) per object - none of which an operation of this
alphabet may change - and says what the covariance must be in any target frame, whatever was
visited before (DESIGN.md 5.4)."""

import pickle

import numpy as np

from sim.node import Node, SimDisk, load_real_eop
from sim import world
from sim.core import fhex

LEVEL = "exploration"
TIERS = {
    "quick": {"runs": 2500, "max_wall": 170, "chunk": 20},
    "thorough": {"runs": 150000, "max_wall": 1700, "chunk": 40},
}
RULE = (
    "one run = one seeded history (1..5 operations) on a state in a non-rotating frame with a symmetric PSD covariance attached in that frame or in "
    "QSW/TNW: cov.frame = T, state.frame = T (covariance dragged along when it is in the state's frame), cov.copy(frame=T), state.copy(frame=T) "
    "(the copy joins the heap), pickling across a process boundary, transparent cache drops, and failing variants (unknown frame, Hill, an exception "
    "injected at the k-th callee of the conversion); T in the 10 built-in frames + QSW + TNW. distinct = distinct (F0 class, attach frame, sequence of "
    "(operation, target-frame class, fault)) signatures; non-trivial = the history visits a rotating or local frame before a later conversion, or contains a failing conversion"
)
STATE_MEASURE = "(attach-frame class, sequence of target frame classes {inertial, rotating, local}, fault sites)"
PROBES = [
    "cov_visited_rotating_frame", "local_after_rotating", "drag_cov_with_state", "back_to_attach_frame", "fault_fired_natural",
    "fault_fired_injected", "atomic_failure_checked", "pickled_then_converted", "cache_dropped", "copy_joined_heap", "attached_in_local_frame", "drag_then_local", "twin_object", "reattached_to_other_state", "cov_built_from_cov", "class_changed_then_converted", "reattached_to_a_state_given_in_another_frame", "frame_registered_under_a_local_name", "covariance_kept_apart_from_its_state",
]
REAL_VS_STUB = "real: Cov, StateVector/Orbit, frames/orientations (iau1980/iau2010 with zero or real IERS EOP from the simulated disk), to_local, pickle; stub: none (injected faults are raising wrappers in the node's private package copy); model: own QSW/TNW axes from (r0, v0) in F0, R C R^T with R from a pristine node's single-hop orientation matrix"
ASSUMPTIONS = [
    "the single-hop 3x3 rotation F0 -> T of a pristine node is trusted (whether it is the right rotation is C02, not applicable here)",
    "for Earth-fixed targets the full 6x6 result is compared with the pristine node's single hop (with its rate coupling), the position block with R C_pp R^T",
]
SAMPLED_ONLY = []
TOLERANCES = {"model_rel": 1e-9, "symmetry_rel": 1e-12, "psd_rel": 1e-9, "eig_rel": 1e-9}

INERTIAL = ["EME2000", "MOD", "TOD", "TEME", "GCRF", "CIRF", "G50"]
ROTATING = ["ITRF", "PEF", "TIRF"]
LOCAL = ["QSW", "TNW"]
TARGETS = INERTIAL + ROTATING + LOCAL


def fclass(name):
    return "local" if name in LOCAL else "rotating" if name in ROTATING + ["WGS84"] else "inertial" if name in INERTIAL else "other"


class InjectedFault(Exception):
    pass


# ------------------------------------------------------------------ generate


def gen_plan(rng, tier, i):
    a = rng.uniform(6.8e6, 4.5e7)
    e = rng.uniform(0.0005, min(0.75, 1 - 6.6e6 / a))
    obj = {
        "type": rng.choice(["sv", "orbit"]),
        "kep": [a, e, rng.uniform(0.02, 3.1), rng.uniform(0.0, 6.28), rng.uniform(0.0, 6.28), rng.uniform(0.0, 6.28)],
        "frame": rng.choice(INERTIAL),
        "form": rng.choice(["cartesian", "cartesian", "keplerian", "spherical", "equinoctial", "keplerian_mean"]),
        "epoch": [rng.randint(41700, 57790), float(rng.randint(0, 86399))],
        "cov_seed": rng.randrange(1 << 30),
        "cov_kind": rng.choice(["full", "full", "diag", "rank2", "tiny_vel"]),
        "attach": rng.choice(["same", "same", "same", "QSW", "TNW"]),
        "attach_as_str": rng.random() < 0.5,
        "scale": rng.choice(["UTC", "UTC", "TT", "TAI", "GPS", "TDB", "UT1"]),
    }
    twin = None
    if rng.random() < 0.4:
        # a second, unrelated satellite: same clock reading under another time-scale label (or a neighbouring instant), so that
        # anything remembered from a conversion of one object is wrong for the other
        a2 = rng.uniform(6.8e6, 4.5e7)
        twin = dict(
            obj,
            kep=[a2, rng.uniform(0.0005, min(0.75, 1 - 6.6e6 / a2)), rng.uniform(0.02, 3.1), rng.uniform(0.0, 6.28), rng.uniform(0.0, 6.28), rng.uniform(0.0, 6.28)],
            scale=rng.choice([sc for sc in ["UTC", "TT", "TAI", "GPS"] if sc != obj["scale"]]),
            cov_seed=rng.randrange(1 << 30),
            frame=obj["frame"] if rng.random() < 0.7 else rng.choice(INERTIAL),
        )
        if rng.random() < 0.3:
            twin["scale"] = obj["scale"]
            twin["epoch"] = [obj["epoch"][0], obj["epoch"][1] + rng.choice([1e-6, 1e-3, 1.0, 37.0])]
    kep_b = [rng.uniform(6.8e6, 9e6), rng.uniform(0.001, 0.02), rng.uniform(0.02, 3.1), rng.uniform(0.0, 6.28), rng.uniform(0.0, 6.28), rng.uniform(0.0, 6.28)]
    ops = []
    for _ in range(rng.randint(1, 5)):
        k = rng.choice(["cov_frame"] * 5 + ["set_frame"] * 3 + ["cov_copy", "sv_copy", "sv_copy", "pickle", "drop_cache", "reattach", "cov_from_cov"])
        op = {"op": k, "obj": rng.randrange(4)}
        if k in ("cov_frame", "cov_copy"):
            op["frame"] = rng.choice(TARGETS + ROTATING + LOCAL)
        elif k in ("set_frame", "sv_copy"):
            op["frame"] = rng.choice(INERTIAL + ROTATING + ROTATING)
            if k == "sv_copy" and rng.random() < 0.3:
                op["frame"] = None
        elif k == "pickle":
            op["where"] = rng.choice(["same", "other"])
        if k in ("cov_frame", "set_frame", "cov_copy", "sv_copy") and rng.random() < 0.25:
            if rng.random() < 0.4:
                op["fail"] = {"kind": "natural", "what": rng.choice(["unknown", "hill"])}
            else:
                site = rng.choice(["expand", "expand", "to_local", "get_frame", "form_edge", "transform_end"])
                op["fail"] = {"kind": "inject", "site": site, "k": rng.randint(1, 5) if site in ("expand", "form_edge") else rng.randint(1, 2)}
        ops.append(op)
    if rng.random() < 0.12:
        # biased history: visit a local frame, come back, hand the covariance to another state (or copy it), go local again
        loc = rng.choice(LOCAL)
        ops = [
            {"op": "cov_frame", "obj": 0, "frame": loc},
            {"op": "cov_frame", "obj": 0, "frame": obj["frame"]},
            {"op": rng.choice(["reattach", "reattach", "cov_from_cov", "pickle", "sv_copy"]), "obj": 0, "frame": None, "where": "other"},
            {"op": "cov_frame", "obj": rng.randrange(4), "frame": rng.choice([loc, loc] + LOCAL)},
        ] + ops[:1]
    real_eop = rng.random() < 0.35
    import random

    if random.Random("c14-iso:" + repr(obj["cov_seed"])).random() < 0.1:
        obj["cov_kind"] = "iso"
    if random.Random("c14-int:" + repr(obj["cov_seed"])).random() < 0.12:
        obj["cov_kind"] = random.Random("c14-intk:" + repr(obj["cov_seed"])).choice(["int_diag", "int_full"])
        if twin:
            twin["cov_kind"] = "full"

    child = random.Random("c14-child:" + repr(obj["cov_seed"]) + repr(len(ops)))  # operations added after the first version: own generator, earlier plans keep their draws
    if child.random() < 0.15:
        # somewhere in the process a frame gets registered under the plain name QSW / TNW (the local frame of another satellite):
        # for a covariance these two names keep meaning the axes of its own state
        ops.insert(child.randint(0, len(ops)), {"op": "namesake", "obj": 0, "name": child.choice(LOCAL)})
        ops.append({"op": "cov_frame", "obj": child.randrange(4), "frame": child.choice(LOCAL)})
        for o_ in ops:
            # (the orientation of the Hill frame goes by the same name: once a connected frame is called QSW / TNW, "Hill" is no longer a
            # target that is certain to fail)
            if (o_.get("fail") or {}).get("what") == "hill":
                o_["fail"] = dict(o_["fail"], what="unknown")
    if child.random() < 0.12:
        # a covariance built on a state but never attached to it: it keeps the state it was built on, whatever happens to that object
        ops.insert(child.randint(0, len(ops)), {"op": "standalone", "obj": 0, "seed": child.randrange(1 << 30), "then": child.choice(["frame:ITRF", "frame:MOD", "form:keplerian", "form:spherical"]), "to": child.choice(LOCAL)})
    for o_ in ops:
        if o_["op"] == "reattach" and child.random() < 0.6:
            o_["owner_frame"] = child.choice(INERTIAL)
    if child.random() < 0.3:
        # the state becomes an Orbit / a StateVector again (as_orbit / as_statevector) somewhere in the history: same state, same covariance
        ops.insert(child.randint(0, len(ops)), {"op": "as_other", "obj": child.randrange(4)})
        if child.random() < 0.5:
            ops.append({"op": "cov_frame", "obj": ops[-1]["obj"] if child.random() < 0.5 else child.randrange(4), "frame": child.choice(LOCAL + LOCAL + TARGETS)})
    return {"knobs": {"object": obj, "twin": twin, "kep_b": kep_b, "real_eop": real_eop}, "ops": ops}


# --------------------------------------------------------------------- model


def psd(seed, kind):
    rs = np.random.RandomState(seed)
    scale = np.array([1e2, 1e2, 1e2, 1e-1, 1e-1, 1e-1]) * np.exp(rs.uniform(-2, 2, size=6))
    if kind == "tiny_vel":
        scale[3:] *= 1e-4
    if kind == "diag":
        return np.diag(scale**2)
    if kind == "iso":
        # exactly isotropic position and velocity blocks (a matrix typed in by hand: sigma_r, sigma_v)
        a_, b_ = float(rs.randint(1, 200)) ** 2, float(rs.randint(1, 50)) ** 2 * 1e-4
        return np.diag([a_, a_, a_, b_, b_, b_])
    if kind in ("int_diag", "int_full"):
        # whole numbers held in an integer array (a matrix typed in by hand, read from a table of integers): the same matrix
        if kind == "int_diag":
            return np.diag(rs.randint(1, 400, size=6)).astype(np.int64)
        a = rs.randint(-9, 10, size=(6, 6))
        return (a @ a.T).astype(np.int64)
    if kind == "rank2":
        a = rs.normal(size=(6, 2)) * scale[:, None]
        m = a @ a.T
    else:
        a = rs.normal(size=(6, 6)) * scale[:, None]
        m = a @ a.T
    return (m + m.T) / 2


def local_axes(name, r, v):
    """3x3 matrix inertial -> QSW / TNW from the inertial position and velocity (own code)."""
    r = np.asarray(r, float)
    v = np.asarray(v, float)
    w = np.cross(r, v)
    w = w / np.linalg.norm(w)
    if name == "QSW":
        q = r / np.linalg.norm(r)
        s = np.cross(w, q)
        return np.array([q, s, w])
    t = v / np.linalg.norm(v)
    n = np.cross(w, t)
    return np.array([t, n, w])


def bd(R):
    m = np.zeros((6, 6))
    m[:3, :3] = R
    m[3:, 3:] = R
    return m


OMEGA_EARTH = 7.292115e-5


def block_err(C, E, rot=False):
    """max over the four 3x3 blocks of |C - E| / (s_a s_b), s = sqrt of the largest diagonal entry of the expected block.
    When the matrix is, or has been, expressed in an Earth-fixed frame its velocity block held omega x sigma_r terms; coming
    back to an inertial frame cancels them, so the rounding error scales with them: the velocity scale is then at least
    omega_earth * s_p (floating-point conditioning of the operation itself, not a tolerance on the property)."""
    sp = np.sqrt(max(np.max(np.abs(np.diag(E)[:3])), 1e-300))
    sv = np.sqrt(max(np.max(np.abs(np.diag(E)[3:])), 1e-300))
    if rot:
        sv = max(sv, OMEGA_EARTH * sp)
    s = np.array([sp] * 3 + [sv] * 3)
    return float(np.max(np.abs(C - E) / np.outer(s, s)))


class Tracked:
    """Model of one heap object: what never changes under this alphabet."""

    def __init__(self, C0, attach, F0, rv0, date):
        # date = (mjd, seconds, scale)
        self.C0, self.attach, self.F0, self.rv0, self.date = C0, attach, F0, rv0, tuple(date)
        if attach in LOCAL:
            L = bd(local_axes(attach, rv0[:3], rv0[3:]))
            self.CF0 = L.T @ C0 @ L
        else:
            self.CF0 = C0
        self.visited = []  # frame names the covariance has been in


class Injector:
    def __init__(self, node, site, k):
        self.node, self.site, self.k = node, site, k
        self.count = 0
        self.undo = []

    def _wrap(self, holder, name, after=False):
        orig = holder.__dict__[name] if name in getattr(holder, "__dict__", {}) else getattr(holder, name)
        raw = orig.__func__ if isinstance(orig, (classmethod, staticmethod)) else orig
        inj = self

        def wrapper(*a, **kw):
            res = raw(*a, **kw) if after else None
            inj.count += 1
            if inj.count == inj.k:
                raise InjectedFault(f"{inj.site} call #{inj.k}")
            return res if after else raw(*a, **kw)

        setattr(holder, name, classmethod(wrapper) if isinstance(orig, classmethod) else wrapper)
        self.undo.append((holder, name, orig))

    def __enter__(self):
        n, s = self.node, self.site
        if s == "expand":
            self._wrap(n.mod("beyond.frames.orient"), "expand")
        elif s == "to_local":
            self._wrap(n.mod("beyond.orbits.cov"), "to_local")
        elif s == "get_frame":
            self._wrap(n.mod("beyond.orbits.cov"), "get_frame")
        elif s == "form_edge":
            Form = n.mod("beyond.orbits.forms").Form
            for nm in [x for x in Form.__dict__ if x.startswith("_") and "_to_" in x]:
                self._wrap(Form, nm)
        elif s == "transform_end":
            self._wrap(n.mod("beyond.frames.frames").Frame, "transform", after=True)
        return self

    def __exit__(self, *exc):
        for holder, name, orig in reversed(self.undo):
            setattr(holder, name, orig)
        return False


# ----------------------------------------------------------------------- run


def cov_name(c):
    f = c.frame
    return f if isinstance(f, str) else f.name


def snap(o):
    c = o._data.get("cov")
    return {
        "vals": np.array(o, dtype=float).tobytes(),
        "form": o._data["form"].name,
        "frame": o._data["frame"].name,
        "cov": None if c is None else np.array(c, dtype=float).tobytes(),
        "cov_frame": None if c is None else cov_name(c),
    }


class World:
    def __init__(self, plan, ctx):
        self.plan, self.ctx = plan, ctx
        kn = plan["knobs"]
        disk = SimDisk()
        self.real_eop = bool(kn.get("real_eop"))
        if self.real_eop:
            load_real_eop(disk)
        self.disk = disk
        self.node = self.mknode("sys")
        self.objs = []
        self.models = []
        self.Rcache = {}
        self.pnodes = {}
        for spec in [kn["object"]] + ([kn["twin"]] if kn.get("twin") else []):
            self.add_root(spec)
        if kn.get("twin"):
            ctx.probe("twin_object")

    def add_root(self, spec):
        n, ctx = self.node, self.ctx
        with n:
            date = world.mk_date(n, spec["epoch"], spec.get("scale", "UTC"))
            sv = n.StateVector(spec["kep"], date, "keplerian", spec["frame"])
            sv.form = spec["form"]
            if not np.all(np.isfinite(np.asarray(sv, dtype=float))):
                sv.form = "cartesian"
            if spec["type"] == "orbit":
                sv = sv.as_orbit(n.mod("beyond.propagators.kepler").Kepler())
            rv0 = np.array(sv.copy(form="cartesian"), dtype=float)
            C0 = psd(spec["cov_seed"], spec["cov_kind"])
            attach = spec["frame"] if spec["attach"] == "same" else spec["attach"]
            fr = attach if (spec.get("attach_as_str") or attach in LOCAL) else n.frames.get_frame(attach)
            sv.cov = n.Cov(sv, C0.copy(), fr)
            if attach in LOCAL:
                ctx.probe("attached_in_local_frame")
        self.objs.append(sv)
        m = Tracked(C0, attach, spec["frame"], rv0, list(spec["epoch"]) + [spec.get("scale", "UTC")])
        m.visited.append(attach)
        self.models.append(m)

    def mknode(self, name):
        n = Node(name, disk=self.disk)
        with n:
            cfg = {"eop": {"missing_policy": "pass"}}
            if self.real_eop:
                cfg["eop"]["folder"] = "/eop"
            n.config.update(cfg)
        return n

    # ------------------------------------------------------------- model side
    def hop(self, F0, T, date):
        """6x6 single-hop matrix F0 -> T at `date`, from a pristine node that has only ever served this one date."""
        key = (F0, T, tuple(date))
        if key not in self.Rcache:
            if tuple(date) not in self.pnodes:
                self.pnodes[tuple(date)] = self.mknode("pristine")
            p = self.pnodes[tuple(date)]
            with p:
                d = world.mk_date(p, date[:2], date[2])
                a = p.frames.get_frame(F0)
                b = p.frames.get_frame(T)
                self.Rcache[key] = np.array(a.orientation.convert_to(d, b.orientation), dtype=float)
        return self.Rcache[key]

    def expected(self, m, T):
        ctx = self.ctx
        if T in LOCAL:
            L = bd(local_axes(T, m.rv0[:3], m.rv0[3:]))
            return L @ m.CF0 @ L.T, None
        if T == m.F0:
            return m.CF0, None
        M = self.hop(m.F0, T, m.date)
        R = M[:3, :3]
        # the model's own sanity: a proper rotation
        if abs(np.linalg.det(R) - 1) > 1e-9 or np.max(np.abs(R @ R.T - np.eye(3))) > 1e-9:
            ctx.violate("pure-rotation", {"kind": "single_hop_not_a_rotation", "target": T}, f"pristine single hop {m.F0}->{T} is not a proper rotation")
        if fclass(T) == "inertial":
            return bd(R) @ m.CF0 @ bd(R).T, R
        return M @ m.CF0 @ M.T, R

    def check_obj(self, j, where):
        """All invariants of one heap object against its model."""
        ctx = self.ctx
        o, m = self.objs[j], self.models[j]
        c = o._data.get("cov")
        if c is None:
            ctx.violate("follows-state", {"kind": "covariance_lost"}, f"{where}: object {j} has lost its covariance")
            return
        T = cov_name(c)
        C = np.array(c, dtype=float)
        hist = "->".join(m.visited)
        fp_hist = {
            "target": fclass(T),
            "after_rotating": any(fclass(v) == "rotating" for v in m.visited[:-1]),
            "after_local": any(fclass(v) == "local" for v in m.visited[:-1]),
            "attach": fclass(m.attach),
        }
        ctx.checks += 1
        if not np.all(np.isfinite(C)):
            ctx.violate("pure-rotation", dict(fp_hist, kind="non_finite"), f"{where}: covariance of object {j} in {T} has non-finite entries (history {hist})")
            return
        scale = float(np.max(np.abs(C)))
        ctx.observe("asymmetry_rel", float(np.max(np.abs(C - C.T))) / scale)
        if np.max(np.abs(C - C.T)) > TOLERANCES["symmetry_rel"] * scale:
            ctx.violate("symmetric-psd", dict(fp_hist, kind="not_symmetric"), f"{where}: covariance of object {j} in {T} is not symmetric (max |C-C^T| = {np.max(np.abs(C - C.T)):.3e}, scale {scale:.3e}; history {hist})")
        S = (C + C.T) / 2
        sp = np.sqrt(np.max(np.abs(np.diag(S)[:3])))
        svv = np.sqrt(np.max(np.abs(np.diag(S)[3:])))
        d = np.array([sp] * 3 + [svv] * 3)
        w = np.linalg.eigvalsh(S / np.outer(d, d))
        ctx.observe("neg_eig_rel", max(0.0, -float(w.min())) / float(np.sum(np.abs(w))))
        if w.min() < -TOLERANCES["psd_rel"] * np.sum(np.abs(w)):
            ctx.violate("symmetric-psd", dict(fp_hist, kind="not_psd"), f"{where}: covariance of object {j} in {T} has a negative eigenvalue {w.min():.3e} (scaled; history {hist})")
        E, R = self.expected(m, T)
        # position-block spectrum
        ep = np.sort(np.linalg.eigvalsh(S[:3, :3]))
        e0 = np.sort(np.linalg.eigvalsh(m.CF0[:3, :3]))
        err = float(np.max(np.abs(ep - e0)) / max(e0.max(), 1e-300))
        ctx.observe("pos_eig_rel", err)
        if err > TOLERANCES["eig_rel"]:
            ctx.violate("spectrum", dict(fp_hist, kind="position_eigenvalues_changed"), f"{where}: eigenvalues of the position block of object {j} in {T} are {ep}, originally {e0} (history {hist})")
        rot = any(fclass(v) == "rotating" for v in m.visited)
        err = block_err(C, E, rot)
        ctx.observe("model_rel", err)
        if err > TOLERANCES["model_rel"]:
            ctx.violate(
                "path-independence",
                dict(fp_hist, kind="cov_differs_from_model"),
                f"{where}: covariance of object {j} in {T} differs from R C R^T computed from the original matrix (relative block error {err:.3e}); frames visited: {hist}; "
                f"attached in {m.attach}, state given in {m.F0}",
            )
        if R is not None and fclass(T) == "rotating":
            Epp = R @ m.CF0[:3, :3] @ R.T
            errp = float(np.max(np.abs(C[:3, :3] - Epp)) / max(np.max(np.abs(Epp)), 1e-300))
            ctx.observe("pos_block_rel", errp)
            if errp > TOLERANCES["model_rel"]:
                ctx.violate("path-independence", dict(fp_hist, kind="position_block_differs"), f"{where}: position block of object {j} in {T} differs from R C_pp R^T (rel {errp:.3e}; history {hist})")
        # the state itself is the same point
        ctx.checks += 1
        try:
            back = np.array(o.copy(frame=m.F0, form="cartesian"), dtype=float)
        except Exception as e:  # noqa
            ctx.violate("state-untouched", {"kind": "state_unusable"}, f"{where}: object {j} cannot be converted back to {m.F0}: {type(e).__name__}: {e}")
            return
        dp = float(np.linalg.norm(back[:3] - m.rv0[:3]))
        dv = float(np.linalg.norm(back[3:] - m.rv0[3:]))
        ctx.observe("state_back_m", dp)
        # rounding of a chain of frame conversions and back (observed up to 1.2e-4 m at 4.5e7 m over 18 000 thorough runs): 1e-3 m + 1e-10 |r|
        if dp > 1e-3 + 1e-10 * float(np.linalg.norm(m.rv0[:3])) or dv > 1e-6 + 1e-10 * float(np.linalg.norm(m.rv0[3:])):
            ctx.violate("state-untouched", {"kind": "state_moved"}, f"{where}: object {j} converted back to {m.F0} is {dp:.3e} m / {dv:.3e} m/s away from where it started")

    # ------------------------------------------------------------- operations
    def attempt(self, fn, fail, sig, tclass):
        ctx = self.ctx
        try:
            if fail and fail["kind"] == "inject":
                with Injector(self.node, fail["site"], fail["k"]):
                    fn()
            else:
                fn()
            exc = None
        except Exception as e:  # noqa
            exc = e
        if exc is not None:
            if isinstance(exc, InjectedFault):
                ctx.fault("callee_fail_injected:" + fail["site"])
                ctx.probe("fault_fired_injected")
            else:
                ctx.fault("callee_fail_natural")
                ctx.probe("fault_fired_natural")
        ctx.sig.append((sig, tclass, (fail or {}).get("site") or (fail or {}).get("what") or "", type(exc).__name__ if exc else ""))
        return exc

    def target(self, op):
        fail = op.get("fail")
        if fail and fail["kind"] == "natural":
            return {"unknown": "NoSuchFrame", "hill": "Hill"}[fail["what"]]
        return op.get("frame")

    def run(self):
        ctx = self.ctx
        n = self.node
        with n:
            for i in range(len(self.objs)):
                self.check_obj(i, "initial state")
        for step, op in enumerate(self.plan["ops"]):
            j = op["obj"] % len(self.objs)
            o, m = self.objs[j], self.models[j]
            k = op["op"]
            fail = op.get("fail")
            T = self.target(op)
            where = f"op#{step} {k}{'(' + str(T) + ')' if T else ''} on object {j}"
            with n:
                before = [snap(x) for x in self.objs]
                getattr(self, "op_" + k)(j, o, m, op, T, fail, before, where)
                now = [snap(x) for x in self.objs[: len(before)]]
                for i in range(len(before)):
                    if i != j and now[i] != before[i]:
                        ctx.violate("no-interference", {"kind": "other_object_changed"}, f"{where}: object {i} changed although the operation was applied to object {j}")
                for i in range(len(self.objs)):
                    self.check_obj(i, where)
            ctx.ops_done += 1
            c = self.objs[j]._data.get("cov")
            ctx.ev(k, j, T, fhex(np.asarray(self.objs[j], dtype=float)), self.objs[j].frame.name, fhex(np.asarray(c, dtype=float)) if c is not None else "-", cov_name(c) if c is not None else "-", "fail" if fail else "")

    def note_visit(self, m, T):
        ctx = self.ctx
        if fclass(T) == "rotating":
            ctx.probe("cov_visited_rotating_frame")
        if fclass(T) == "local" and any(fclass(v) == "rotating" for v in m.visited):
            ctx.probe("local_after_rotating")
            ctx.nontrivial = True
        if fclass(T) == "local" and getattr(m, "dragged", False):
            ctx.probe("drag_then_local")
        if T == m.attach and len(m.visited) > 1:
            ctx.probe("back_to_attach_frame")
        if any(fclass(v) in ("rotating", "local") for v in m.visited):
            ctx.nontrivial = True
        m.visited.append(T)

    def failed(self, j, before, exc, where, opname, T):
        """After a failing conversion: covariance, its frame, the state and its frame are as before."""
        ctx = self.ctx
        ctx.probe("atomic_failure_checked")
        ctx.nontrivial = True
        ctx.checks += 1
        now = snap(self.objs[j])
        b = before[j]
        diff = [k for k in ("cov_frame", "frame", "form") if now[k] != b[k]]
        site = str(getattr(exc, "args", [""])[0]).split(" call")[0] if isinstance(exc, InjectedFault) else type(exc).__name__
        fp = {"kind": "not_atomic", "op": opname, "site": site}
        if diff:
            ctx.violate("atomic-failure", dict(fp, what="labels"), f"{where}: raised {type(exc).__name__}: {exc}; left with " + ", ".join(f"{k}={now[k]} (was {b[k]})" for k in diff))
            return
        if now["cov"] != b["cov"]:
            cb, cn = np.frombuffer(b["cov"]).reshape(6, 6), np.frombuffer(now["cov"]).reshape(6, 6)
            if block_err(cn, cb) > 1e-12:
                ctx.violate("atomic-failure", dict(fp, what="covariance"), f"{where}: raised {type(exc).__name__}: {exc}; the covariance values changed while its frame label did not")
                return
        if now["vals"] != b["vals"]:
            vb, vn = np.frombuffer(b["vals"]), np.frombuffer(now["vals"])
            if not np.allclose(vn, vb, rtol=1e-9, atol=0):
                ctx.violate("atomic-failure", dict(fp, what="values"), f"{where}: raised {type(exc).__name__}: {exc}; the state values moved: {vn} (was {vb})")

    def op_cov_frame(self, j, o, m, op, T, fail, before, where):
        ctx = self.ctx

        def do():
            o.cov.frame = T

        exc = self.attempt(do, fail, "cov_frame", fclass(T))
        if exc is not None:
            if not fail:
                ctx.violate("pure-rotation", {"kind": "unexpected_exception", "op": "cov.frame=", "target": fclass(T)}, f"{where}: raised {type(exc).__name__}: {exc} (frames visited: {'->'.join(m.visited)})")
            self.failed(j, before, exc, where, "cov.frame=", T)
            return
        ctx.checks += 1
        now = snap(o)
        if (now["vals"], now["form"], now["frame"]) != (before[j]["vals"], before[j]["form"], before[j]["frame"]):
            ctx.violate("state-untouched", {"kind": "state_changed_by_cov_frame"}, f"{where}: changed the state vector itself ({before[j]['frame']}/{before[j]['form']} -> {now['frame']}/{now['form']})")
        if T == "WGS84":
            T = "ITRF"
        if now["cov_frame"] != T:
            ctx.violate("pure-rotation", {"kind": "wrong_label_after_success"}, f"{where}: succeeded but the covariance says frame {now['cov_frame']}")
        self.note_visit(m, now["cov_frame"])

    def op_set_frame(self, j, o, m, op, T, fail, before, where):
        ctx = self.ctx
        follows = before[j]["cov_frame"] == before[j]["frame"]

        def do():
            o.frame = T

        exc = self.attempt(do, fail, "set_frame", fclass(T))
        if exc is not None:
            if not fail:
                ctx.violate("pure-rotation", {"kind": "unexpected_exception", "op": "frame=", "target": fclass(T)}, f"{where}: raised {type(exc).__name__}: {exc}")
            self.failed(j, before, exc, where, "frame=", T)
            return
        now = snap(o)
        ctx.checks += 1
        if now["frame"] != T or now["form"] != before[j]["form"]:
            ctx.violate("follows-state", {"kind": "wrong_label_after_success"}, f"{where}: succeeded but the state says frame {now['frame']}, form {now['form']}")
        if follows:
            ctx.probe("drag_cov_with_state")
            if now["cov_frame"] != T:
                ctx.violate("follows-state", {"kind": "covariance_did_not_follow"}, f"{where}: the covariance was expressed in the state's frame {before[j]['frame']} but did not follow it to {T} (still {now['cov_frame']})")
                return
            if T != before[j]["frame"]:
                m.dragged = True
                self.note_visit(m, T)
        else:
            if now["cov_frame"] != before[j]["cov_frame"] or now["cov"] != before[j]["cov"]:
                ctx.violate("follows-state", {"kind": "untied_covariance_changed"}, f"{where}: the covariance was in {before[j]['cov_frame']}, not in the state's frame {before[j]['frame']}, and yet changed with the state")

    def op_cov_copy(self, j, o, m, op, T, fail, before, where):
        ctx = self.ctx
        res = {}

        def do():
            res["c"] = o.cov.copy(frame=T)

        exc = self.attempt(do, fail, "cov_copy", fclass(T))
        ctx.checks += 1
        if snap(o) != before[j]:
            ctx.violate("pure-conversion", {"kind": "receiver_changed_by_cov_copy", "failed": exc is not None}, f"{where}: cov.copy(frame={T}) modified the covariance / state it was called on")
        if exc is not None:
            if not fail:
                ctx.violate("pure-rotation", {"kind": "unexpected_exception", "op": "cov.copy", "target": fclass(T)}, f"{where}: raised {type(exc).__name__}: {exc} (frames visited: {'->'.join(m.visited)})")
            return
        c = res["c"]
        E, _ = self.expected(m, "ITRF" if T == "WGS84" else T)
        err = block_err(np.array(c, dtype=float), E, fclass(T) == "rotating" or any(fclass(v) == "rotating" for v in m.visited))
        ctx.observe("model_rel", err)
        if cov_name(c) != ("ITRF" if T == "WGS84" else T) or err > TOLERANCES["model_rel"]:
            ctx.violate(
                "path-independence",
                {"kind": "cov_copy_differs_from_model", "target": fclass(T), "after_rotating": any(fclass(v) == "rotating" for v in m.visited), "after_local": any(fclass(v) == "local" for v in m.visited)},
                f"{where}: cov.copy(frame={T}) is labelled {cov_name(c)} and differs from R C R^T by {err:.3e} (frames visited by the source: {'->'.join(m.visited)})",
            )
        if np.shares_memory(np.asarray(c), np.asarray(o.cov)):
            ctx.violate("pure-conversion", {"kind": "cov_copy_shares_memory"}, f"{where}: the copy shares its buffer with the source")

    def op_sv_copy(self, j, o, m, op, T, fail, before, where):
        ctx = self.ctx
        if len(self.objs) >= 3:
            return
        res = {}
        follows = before[j]["cov_frame"] == before[j]["frame"]

        def do():
            res["c"] = o.copy(frame=T) if T else o.copy()

        exc = self.attempt(do, fail, "sv_copy", fclass(T) if T else "-")
        ctx.checks += 1
        if snap(o) != before[j]:
            ctx.violate("pure-conversion", {"kind": "receiver_changed_by_copy", "failed": exc is not None}, f"{where}: copy(frame={T}) modified the object it was called on")
        if exc is not None:
            if not fail:
                ctx.violate("pure-rotation", {"kind": "unexpected_exception", "op": "copy", "target": fclass(T) if T else "-"}, f"{where}: raised {type(exc).__name__}: {exc}")
            return
        c = res["c"]
        m2 = Tracked(m.C0, m.attach, m.F0, m.rv0, m.date)
        m2.visited = list(m.visited)
        self.objs.append(c)
        self.models.append(m2)
        ctx.probe("copy_joined_heap")
        s = snap(c)
        if T and follows and s["cov_frame"] != T:
            ctx.violate("follows-state", {"kind": "covariance_did_not_follow", "via": "copy"}, f"{where}: the covariance of the source was in the state's frame but the copy's covariance is in {s['cov_frame']}")
        if s["cov_frame"] != before[j]["cov_frame"]:
            self.note_visit(m2, s["cov_frame"])

    def op_reattach(self, j, o, m, op, T, fail, before, where):
        """The Cov object, currently expressed in its state's frame, is handed to another state (another satellite, same date, same
        frame): from now on it is that state's covariance, and QSW/TNW are that state's axes."""
        ctx = self.ctx
        b = before[j]
        if b["cov_frame"] != m.F0 or b["frame"] != m.F0:
            return
        n = self.node
        date = world.mk_date(n, m.date[:2], m.date[2])
        sv_b = n.StateVector(self.plan["knobs"]["kep_b"], date, "keplerian", m.F0)
        sv_b.form = "cartesian"
        rv_b = np.array(sv_b, dtype=float)  # the new owner, in the frame the covariance is expressed in
        if op.get("owner_frame") and op["owner_frame"] != m.F0:
            # the new owner is given in another non-rotating frame than the one the covariance is expressed in
            sv_b.frame = op["owner_frame"]
            ctx.probe("reattached_to_a_state_given_in_another_frame")
        cov = o.cov
        sv_b.cov = cov
        del o.cov
        C_now = np.frombuffer(b["cov"]).reshape(6, 6).copy()
        m2 = Tracked(C_now, m.F0, m.F0, rv_b, m.date)
        m2.visited = [m.F0]
        # the source state leaves the heap (it has no covariance any more), the new owner takes its place
        self.objs[j] = sv_b
        self.models[j] = m2
        before[j] = snap(sv_b)
        ctx.probe("reattached_to_other_state")
        ctx.nontrivial = True
        ctx.sig.append(("reattach", "", "", ""))

    def op_cov_from_cov(self, j, o, m, op, T, fail, before, where):
        """Cov(orb2, orb1.cov, None): the constructor's copy form.  The new state and its covariance join the heap."""
        ctx = self.ctx
        if len(self.objs) >= 3 or before[j]["frame"] != m.F0:
            return
        n = self.node
        sv2 = o.copy()
        sv2.cov = n.Cov(sv2, o.cov, None)
        m2 = Tracked(m.C0, m.attach, m.F0, m.rv0, m.date)
        m2.visited = list(m.visited)
        self.objs.append(sv2)
        self.models.append(m2)
        ctx.probe("cov_built_from_cov")
        ctx.sig.append(("cov_from_cov", "", "", ""))
        ctx.checks += 1
        if snap(o) != before[j]:
            ctx.violate("pure-conversion", {"kind": "receiver_changed_by_cov_constructor"}, f"{where}: Cov(other, cov, None) modified the covariance it copies")
        if np.shares_memory(np.asarray(sv2.cov), np.asarray(o.cov)):
            ctx.violate("pure-conversion", {"kind": "cov_copy_shares_memory", "via": "constructor"}, f"{where}: the covariance built from another one shares its buffer with it")

    def op_standalone(self, j, o, m, op, T, fail, before, where):
        """Cov(state, C, frame) kept apart from the state (not assigned to it); the state object is then converted in place; the
        covariance converted to QSW / TNW refers to the position and velocity it was built on."""
        ctx = self.ctx
        n = self.node
        date = world.mk_date(n, m.date[:2], m.date[2])
        s_ = n.StateVector(self.plan["knobs"]["kep_b"], date, "keplerian", m.F0)
        s_.form = "cartesian"
        rv = np.array(s_, dtype=float)
        C = psd(op["seed"], "full")
        try:
            c = n.Cov(s_, C.copy(), m.F0)
            what, val = op["then"].split(":")
            setattr(s_, what, val)
            c.frame = op["to"]
            got = np.array(c, dtype=float)
        except Exception as e:  # noqa
            ctx.violate("pure-rotation", {"kind": "unexpected_exception", "op": "standalone", "target": "local"}, f"{where}: a covariance built apart from its state, converted to {op['to']} after the state was converted in place, raised {type(e).__name__}: {e}")
            return
        L = bd(local_axes(op["to"], rv[:3], rv[3:]))
        want = L @ C @ L.T
        err = block_err(got, want, False)
        ctx.checks += 1
        ctx.probe("covariance_kept_apart_from_its_state")
        if err > TOLERANCES["model_rel"]:
            ctx.violate("path-independence", {"kind": "standalone_cov_differs_from_model", "target": "local"}, f"{where}: a covariance built on a state (not assigned to it), converted to {op['to']} after the state object was changed in place ({op['then']}), differs from R C R^T built on the state it was created with (relative {err:.3e})")

    def op_namesake(self, j, o, m, op, T, fail, before, where):
        """Another satellite registers its local orbital frame under the plain name "QSW" / "TNW"."""
        n = self.node
        date = world.mk_date(n, m.date[:2], m.date[2])
        other = n.Orbit(self.plan["knobs"]["kep_b"], date, "keplerian", "EME2000", n.mod("beyond.propagators.kepler").Kepler())
        try:
            other.as_frame(op["name"], orientation=op["name"])
        except Exception:  # noqa
            return
        self.ctx.probe("frame_registered_under_a_local_name")
        self.ctx.fault("msg_interleaved_registration")
        self.ctx.sig.append(("namesake", op["name"], "", ""))

    def op_as_other(self, j, o, m, op, T, fail, before, where):
        """StateVector.as_orbit(propagator) / Orbit.as_statevector(): the same state and the same covariance under the other class;
        the history then continues on the new object."""
        ctx = self.ctx
        n = self.node
        is_orbit = hasattr(o, "as_statevector") and type(o).__name__ == "Orbit"
        try:
            new = o.as_statevector() if is_orbit else o.as_orbit(n.mod("beyond.propagators.kepler").Kepler())
        except Exception as e:  # noqa
            ctx.violate("pure-rotation", {"kind": "unexpected_exception", "op": "as_other", "target": "-"}, f"{where}: {'as_statevector' if is_orbit else 'as_orbit'} raised {type(e).__name__}: {e}")
            return
        ctx.checks += 1
        s_new = snap(new)
        for key in ("cov", "cov_frame", "frame", "form"):
            if s_new.get(key) != before[j].get(key):
                ctx.violate("follows-state", {"kind": "class_change_altered_" + key}, f"{where}: {'as_statevector' if is_orbit else 'as_orbit'} changed the {key} ({before[j].get(key) if key != 'cov' else '...'} -> {s_new.get(key) if key != 'cov' else '...'})")
                return
        self.objs[j] = new
        before[j] = s_new
        ctx.probe("class_changed_then_converted")
        ctx.sig.append(("as_other", "", "", ""))

    def op_pickle(self, j, o, m, op, T, fail, before, where):
        """The object is replaced by what another process (or this one) reads back from its pickle; the history then continues on it."""
        ctx = self.ctx
        data = pickle.dumps(o)
        ctx.fault("msg_to_other_node" if op["where"] == "other" else "pickle_same_node")
        if op["where"] == "other":
            # a peer process unpickles, converts nothing, pickles again: the bytes come back
            peer = self.mknode("peer")
            with peer:
                data = pickle.dumps(pickle.loads(data))
        new = pickle.loads(data)
        self.objs[j] = new
        before[j] = snap(new)
        ctx.probe("pickled_then_converted")

    def op_drop_cache(self, j, o, m, op, T, fail, before, where):
        ctx = self.ctx
        n = self.node
        for modname in ("beyond.frames.iau1980", "beyond.frames.iau2010"):
            mod = n.mod(modname)
            for nm in dir(mod):
                f = getattr(mod, nm)
                if hasattr(f, "_cache") and isinstance(getattr(f, "_cache"), dict):
                    f._cache.clear()
                    ctx.probe("cache_dropped")
        ctx.fault("cache_clear")


def run_plan(plan, ctx):
    w = World(plan, ctx)
    w.run()
    ctx.nontrivial = bool(getattr(ctx, "nontrivial", False))
    m = w.models[0]
    ctx.state(fclass(m.attach), tuple(fclass(v) for m_ in w.models for v in m_.visited), tuple((o.get("fail") or {}).get("site", (o.get("fail") or {}).get("what", "")) for o in plan["ops"]))


def simplify(plan):
    ops = plan["ops"]
    for idx, o in enumerate(ops):
        if o.get("fail"):
            c = dict(o)
            c.pop("fail")
            yield dict(plan, ops=ops[:idx] + [c] + ops[idx + 1 :])
    obj = plan["knobs"]["object"]
    for key, val in (("form", "cartesian"), ("cov_kind", "diag"), ("type", "sv"), ("attach", "same"), ("attach_as_str", False)):
        if obj.get(key) != val:
            yield dict(plan, knobs=dict(plan["knobs"], object=dict(obj, **{key: val})))
    if plan["knobs"].get("real_eop"):
        yield dict(plan, knobs=dict(plan["knobs"], real_eop=False))
    if plan["knobs"].get("twin"):
        yield dict(plan, knobs=dict(plan["knobs"], twin=None))
