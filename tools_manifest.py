#!/usr/bin/env python3
"""Regenerates MANIFEST.json from the table below (kept as code so that it stays valid)."""
import json, os

PY = "/venv/bin/python"
CLAIMED = {
    # id: (level, technique, level text, level note, design ref)
}
NA = {
    "C01": "pure function of its input (stateless form-conversion functions composed along a static tree); no schedule, clock, fault or cross-call state to simulate - input generation would be a change of technique",
    "C02": "for a fixed EOP configuration every frame conversion is a pure function of (state, date, frame pair); the registration-order side is decided under C20 and the IERS-reader / missing-policy side under C03",
    "C04": "same instant under another scale label: a pure function of the inputs, no state is consulted",
    "C05": "Kepler/J2 propagate recompute from a private copy at every call; composition/inverse laws are algebra on a pure function (call-history independence of these propagators is exercised under C08)",
    "C06": "convergence order and drift of a deterministic integrator: numerics of a pure function of (orbit, step, method, date)",
    "C07": "agreement with the reference SGP4 theory is a pure function of (TLE, date); the wrapper's only state is covered as call-history independence under C08",
    "C11": "geodesy and topocentric geometry are pure functions of (lat, lon, alt, target, date); mask interpolation is a pure function of the table",
    "C16": "ClohessyWiltshire.propagate re-applies the maneuver list from the stored initial state at every call; 'exactly once' is a property of that pure function",
    "C17": "QSW/TNW matrices, maneuver projections and dkep2dv are pure functions; maneuver application in the numerical propagator is recomputed from the epoch at every request",
    "C19": "Lambert, sun-synchronous solver, B-plane, LTAN, Walker, beta: pure functions of their inputs",
}


def build():
    from manifest_table import CLAIMED as C, PENDING
    checks = []
    for pid, d in sorted(C.items()):
        checks.append({
            "property_id": pid,
            "quick_cmd": f"{PY} run_check.py {pid} --tier quick",
            "thorough_cmd": f"{PY} run_check.py {pid} --tier thorough",
            "evidence_file": f"evidence/{pid}.json",
            "replay_cmd_template": f"{PY} run_check.py --replay {{path}}",
            "engine": "sim",
            "level_claimed": {"category": d["level"], "text": d["text"], "design_ref": d["ref"]},
            "level_note": d["note"],
            "technique": d["technique"],
        })
    na = [{"property_id": k, "reason": v} for k, v in sorted(NA.items())]
    for k, v in sorted(PENDING.items()):
        na.append({"property_id": k, "reason": v})
    na.sort(key=lambda x: x["property_id"])
    m = {
        "version": 1,
        "setup_cmd": "true",
        "hooks": {
            "guard": "BEYOND_VERIF",
            "enable": "no hook in /repo: every seam (wall clock, EOP/JPL storage, fault wrappers, knobs) is installed by rebinding module globals in a node's private copy of the package, imported from /repo's working tree at run time",
            "baseline_off_cmd": "cd /repo && /venv/bin/python -m pytest -ra -q -p no:cacheprovider --timeout=900 --continue-on-collection-errors",
            "source_commits": [],
            "add_only": True,
        },
        "engines": [{
            "name": "sim",
            "path": "sim/",
            "serves_properties": sorted(C),
            "kind_free_text": "deterministic simulation with fault injection: private package copies as nodes, seeded plans (explicit operation/schedule/fault lists), virtual wall clock, simulated disk, reference models and fresh-node differential oracles, ddmin minimisation, replay files",
        }],
        "checks": checks,
        "not_applicable": na,
        "notes": "All checks import beyond from /repo's working tree at run time (override: VERIF_REPO). VERIF_SEED selects the batch; run i uses Random('<id>:<seed>:<i>'). Exit 0 held / 1 VIOLATION / 2 harness error. Known findings: known_findings.json.",
    }
    with open(os.path.join(os.path.dirname(os.path.abspath(__file__)), "MANIFEST.json"), "w") as fp:
        json.dump(m, fp, indent=1)
    return m


if __name__ == "__main__":
    import sys
    sys.path.insert(0, os.path.dirname(os.path.abspath(__file__)))
    m = build()
    try:
        import jsonschema
        jsonschema.validate(m, json.load(open("/root/.vp/MANIFEST.schema.json")))
        print("MANIFEST.json valid;", len(m["checks"]), "checks,", len(m["not_applicable"]), "not applicable")
    except ImportError:
        print("written (jsonschema not available for validation)")
