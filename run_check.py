#!/venv/bin/python
"""Entry point of every check.

  run_check.py <ID> --tier quick|thorough     run a seeded batch
  run_check.py --replay <file>                re-execute one recorded plan
  run_check.py <ID> --one <i> [--seed S]      generate and run plan i, print its log

Exit 0: property held on everything explored (KNOWN-FINDING lines possible)
Exit 1: VIOLATION property=<id> replay=<path>
Exit 2: harness error / timeout (never reported as 0)
"""

import argparse
import json
import os
import sys
import warnings

# Re-exec once with a fixed hash seed: the simulation does not depend on hash
# order (proved by selftest/determinism.py under several PYTHONHASHSEED values)
# but a fixed value removes the question for replays.
if os.environ.get("PYTHONHASHSEED") is None:
    os.environ["PYTHONHASHSEED"] = "0"
    os.execv(sys.executable, [sys.executable] + sys.argv)

HERE = os.path.dirname(os.path.abspath(__file__))
sys.path.insert(0, HERE)
warnings.filterwarnings("ignore")

from sim import core  # noqa: E402


def main():
    ap = argparse.ArgumentParser()
    ap.add_argument("prop", nargs="?")
    ap.add_argument("--tier", default=os.environ.get("VERIF_TIER", "quick"))
    ap.add_argument("--replay")
    ap.add_argument("--one", type=int)
    ap.add_argument("--seed", type=int, default=None)
    ap.add_argument("--quiet", action="store_true")
    a = ap.parse_args()

    import logging

    logging.disable(logging.CRITICAL)  # checks that assert on log records install their own handlers

    if a.replay:
        return core.replay_file(a.replay, verbose=not a.quiet)

    seed = a.seed if a.seed is not None else int(os.environ.get("VERIF_SEED", "20261001"))
    prop = a.prop.upper()
    if a.one is not None:
        plan = core.gen_plan(prop, seed, a.one, a.tier)
        r = core.execute_plan(prop, plan, keep_log=True)
        print(json.dumps(plan, indent=1, sort_keys=True))
        for line in r.pop("log"):
            print("   ", line)
        print(json.dumps(r, indent=1, sort_keys=True, default=str))
        return 1 if r["violation"] else (2 if r["harness_error"] else 0)
    if a.tier not in ("quick", "thorough"):
        a.tier = "quick"
    return core.run_batch(prop, a.tier, seed)


if __name__ == "__main__":
    sys.exit(main())
