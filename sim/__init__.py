"""Deterministic simulation harness for galactics/beyond (see /verif/DESIGN.md)."""
