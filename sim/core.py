"""Core of the simulator: run context, event log, plans, batches, replay,
minimisation, known findings, evidence.

A *plan* is an explicit JSON document {"property", "knobs", "ops": [...]} in
which every choice (operations, arguments, which task steps next, where each
fault lands) has already been made by the seeded generator.  Executing a plan
draws no randomness and reads no real clock, so a plan - also a hand-minimised
one that no seed would produce - replays exactly.
"""

import hashlib
import importlib
import json
import os
import random
import signal
import subprocess
import sys
import time
import traceback
from collections import Counter
from concurrent.futures import ProcessPoolExecutor, as_completed
import multiprocessing as mp

import numpy as np

VERIF = os.path.dirname(os.path.dirname(os.path.abspath(__file__)))
# overridable so that runs against a scratch tree (seeded changes, VERIF_REPO) do not overwrite the evidence of /repo
REPLAY_DIR = os.environ.get("VERIF_REPLAY_DIR") or os.path.join(VERIF, "replays")
EVIDENCE_DIR = os.environ.get("VERIF_EVIDENCE_DIR") or os.path.join(VERIF, "evidence")
KNOWN_FILE = os.path.join(VERIF, "known_findings.json")


class StopRun(BaseException):
    """Raised inside a run when an (unknown) violation ends it."""


class HarnessTimeout(Exception):
    pass


class HarnessError(Exception):
    pass


# ------------------------------------------------------------------ helpers


def fhex(x):
    """Canonical text for numbers / arrays in the event log (bit exact)."""
    if x is None:
        return "None"
    if isinstance(x, (bool, int, str)):
        return str(x)
    if isinstance(x, float):
        return x.hex()
    a = np.asarray(x, dtype=float)
    return hashlib.md5(np.ascontiguousarray(a).tobytes()).hexdigest()[:16]


def load_known():
    if os.environ.get("VERIF_IGNORE_KNOWN"):  # tooling only (recording repro files of open findings)
        return []
    try:
        with open(KNOWN_FILE) as fp:
            return json.load(fp)["findings"]
    except FileNotFoundError:
        return []


def match_known(known, prop, clause, fp):
    """A violation is a known finding iff an *open* entry of the same property
    and clause has every key of its matcher equal in the violation's
    fingerprint.  Fixed entries never match (they suppress nothing)."""
    for k in known:
        if k.get("status") != "open" or k["property"] != prop:
            continue
        if k["clause"] not in ("*", clause):
            continue
        m = k.get("match", {})
        if all(fp.get(key) == val for key, val in m.items()):
            return k
    return None


# ------------------------------------------------------------------ context


class Ctx:
    """Per-run recorder.  Nothing in here draws randomness or reads a clock."""

    def __init__(self, prop, known=None, keep_log=True):
        self.prop = prop
        self.n = 0  # global event sequence number
        self.h = hashlib.sha256()
        self.keep_log = keep_log
        self.log = []
        self.faults = Counter()
        self.probes = Counter()
        self.sig = []  # interleaving / state signature items
        self.states = set()  # abstract states reached
        self.known = known if known is not None else []
        self.known_hits = []  # [(finding id, detail)]
        self.violation = None
        self.ops_planned = 0
        self.ops_done = 0
        self.mission_s = 0.0
        self.clock_span = [None, None]
        self.checks = 0  # oracle evaluations
        self.maxima = {}  # observed maxima of tolerance-bound quantities (calibration evidence)

    def ev(self, *fields):
        self.n += 1
        line = f"{self.n}|" + "|".join(str(f) for f in fields)
        self.h.update(line.encode())
        self.h.update(b"\n")
        if self.keep_log:
            self.log.append(line)
        return self.n

    def fault(self, kind):
        self.faults[kind] += 1

    def probe(self, name, k=1):
        self.probes[name] += k

    def observe(self, name, value):
        if value > self.maxima.get(name, -1.0):
            self.maxima[name] = float(value)

    def state(self, *items):
        self.states.add(items)

    def clock_seen(self, dt):
        lo, hi = self.clock_span
        if lo is None or dt < lo:
            lo = dt
        if hi is None or dt > hi:
            hi = dt
        self.clock_span = [lo, hi]

    def violate(self, clause, fp, detail):
        """Report a property violation.  If it matches an open known finding it
        is recorded and the run continues; otherwise the run stops."""
        fp = dict(fp)
        k = match_known(self.known, self.prop, clause, fp)
        self.ev("VIOLATION", clause, json.dumps(fp, sort_keys=True), "known" if k else "new")
        if k is not None:
            if sum(1 for kid, _ in self.known_hits if kid == k["id"]) < 3:
                self.known_hits.append((k["id"], detail))
            return False
        self.violation = {"clause": clause, "fingerprint": fp, "detail": detail, "at_event": self.n}
        raise StopRun()

    def digest(self):
        return self.h.hexdigest()


# --------------------------------------------------------------------- runs


def _alarm(signum, frame):
    raise HarnessTimeout("run exceeded its wall-clock watchdog")


def get_check(prop):
    return importlib.import_module(f"checks.{prop.lower()}")


def execute_plan(prop, plan, keep_log=False, watchdog=120):
    """Execute one plan in this process.  Returns a JSON-able result."""
    mod = get_check(prop)
    ctx = Ctx(prop, known=load_known(), keep_log=keep_log)
    ctx.ops_planned = len(plan.get("ops", []))
    old = signal.signal(signal.SIGALRM, _alarm)
    signal.alarm(watchdog)
    err = None
    try:
        try:
            mod.run_plan(plan, ctx)
        except StopRun:
            pass
    except HarnessTimeout as e:
        err = f"timeout: {e}\n{traceback.format_exc()}"
    except Exception as e:  # harness bug (library exceptions are handled by the checks)
        err = f"{type(e).__name__}: {e}\n{traceback.format_exc()}"
    finally:
        signal.alarm(0)
        signal.signal(signal.SIGALRM, old)
    res = {
        "digest": ctx.digest(),
        "events": ctx.n,
        "faults": dict(ctx.faults),
        "probes": dict(ctx.probes),
        "sig": hashlib.md5(json.dumps(ctx.sig, sort_keys=True, default=str).encode()).hexdigest(),
        "nontrivial": bool(getattr(ctx, "nontrivial", False)),
        "states": sorted("/".join(str(i) for i in s) for s in ctx.states),
        "known_hits": ctx.known_hits,
        "violation": ctx.violation,
        "ops_planned": ctx.ops_planned,
        "ops_done": ctx.ops_done,
        "mission_s": ctx.mission_s,
        "clock_span": [str(c) if c else None for c in ctx.clock_span],
        "checks": ctx.checks,
        "maxima": ctx.maxima,
        "harness_error": err,
    }
    if keep_log:
        res["log"] = ctx.log
    return res


def gen_plan(prop, seed, i, tier):
    mod = get_check(prop)
    rng = random.Random(f"{prop}:{seed}:{i}")
    plan = mod.gen_plan(rng, tier, i)
    plan["property"] = prop
    plan["seed"] = seed
    plan["run"] = i
    return plan


def _worker_chunk(prop, seed, idxs, tier):
    out = []
    for i in idxs:
        plan = gen_plan(prop, seed, i, tier)
        r = execute_plan(prop, plan)
        r["run"] = i
        if r["violation"] or r["harness_error"]:
            r["plan"] = plan
        elif i < 3:
            r["plan"] = plan
        out.append(r)
    return out


def _worker_init():
    # deterministic hashing is not relied upon, but keep workers quiet
    import warnings

    warnings.filterwarnings("ignore")
    import logging

    logging.disable(logging.CRITICAL) if os.environ.get("VERIF_QUIET_LOG") else None


# ---------------------------------------------------------- replay / shrink


def replay_file(path, verbose=True):
    with open(path) as fp:
        rep = json.load(fp)
    prop = rep["property"]
    r = execute_plan(prop, rep["plan"], keep_log=True)
    same_digest = r["digest"] == rep.get("log_digest")
    v = r["violation"]
    if verbose:
        for line in r["log"][-40:]:
            print("   ", line)
        print(f"replay digest {'matches' if same_digest else 'DIFFERS from'} recorded digest")
    if r["harness_error"]:
        print("HARNESS-ERROR during replay:\n" + r["harness_error"])
        return 2
    if v:
        print(f"reproduced: clause={v['clause']} fingerprint={json.dumps(v['fingerprint'], sort_keys=True)}")
        print(f"detail: {v['detail']}")
        print(f"VIOLATION property={prop} replay={path}")
        return 1
    for kid, detail in r["known_hits"]:
        print(f"KNOWN-FINDING: property={prop} {kid}: {detail}")
    print("no violation on replay")
    return 0


def _same_class(v, ref):
    return v is not None and v["clause"] == ref["clause"] and v["fingerprint"].get("kind") == ref["fingerprint"].get("kind")


def minimise(prop, plan, ref_violation, budget_s=45):
    """ddmin over plan['ops'], then property-specific simplifications, keeping a
    candidate only if the same violation class (clause + kind) persists."""
    mod = get_check(prop)
    t0 = time.time()
    tried = 0

    def fails(p):
        nonlocal tried
        tried += 1
        r = execute_plan(prop, p)
        return (not r["harness_error"]) and _same_class(r["violation"], ref_violation)

    best = json.loads(json.dumps(plan))
    ops = best.get("ops", [])
    n = 2
    while len(ops) >= 2 and time.time() - t0 < budget_s:
        chunk = max(1, len(ops) // n)
        reduced = False
        for start in range(0, len(ops), chunk):
            cand_ops = ops[:start] + ops[start + chunk :]
            if not cand_ops:
                continue
            cand = dict(best, ops=cand_ops)
            if fails(cand):
                best, ops = cand, cand_ops
                n = max(n - 1, 2)
                reduced = True
                break
            if time.time() - t0 > budget_s:
                break
        if not reduced:
            if chunk == 1:
                break
            n = min(n * 2, len(ops))
    # property-specific simplifications (fixpoint, bounded)
    simp = getattr(mod, "simplify", None)
    if simp:
        progress = True
        while progress and time.time() - t0 < budget_s:
            progress = False
            for cand in simp(best):
                if time.time() - t0 > budget_s:
                    break
                if fails(cand):
                    best = cand
                    progress = True
                    break
    return best, tried


def write_replay(prop, plan, result, tag=""):
    os.makedirs(REPLAY_DIR, exist_ok=True)
    v = result["violation"]
    name = f"{prop}-{plan.get('seed')}-{plan.get('run')}{tag}.json"
    path = os.path.join(REPLAY_DIR, name)
    with open(path, "w") as fp:
        json.dump(
            {
                "property": prop,
                "clause": v["clause"] if v else None,
                "seed": plan.get("seed"),
                "run": plan.get("run"),
                "violation": v,
                "log_digest": result["digest"],
                "plan": plan,
            },
            fp,
            indent=1,
            sort_keys=True,
        )
    return path


def confirm_in_fresh_interpreter(path):
    """Re-execute a replay file in a fresh interpreter; returns exit code."""
    env = dict(os.environ)
    env["PYTHONHASHSEED"] = "0"
    p = subprocess.run(
        [sys.executable, os.path.join(VERIF, "run_check.py"), "--replay", path, "--quiet"],
        capture_output=True,
        text=True,
        env=env,
        timeout=600,
    )
    return p.returncode, p.stdout[-2000:] + p.stderr[-2000:]


# -------------------------------------------------------------------- batch


def run_batch(prop, tier, seed, workers=None):
    mod = get_check(prop)
    cfg = mod.TIERS[tier]
    runs = int(os.environ.get("VERIF_RUNS", cfg["runs"]))
    max_wall = float(os.environ.get("VERIF_MAX_WALL", cfg["max_wall"]))
    workers = workers or int(os.environ.get("VERIF_WORKERS", min(16, os.cpu_count() or 1)))
    chunk = cfg.get("chunk", 8)
    t0 = time.time()
    print(f"[{prop}] tier={tier} VERIF_SEED={seed} runs<={runs} wall<={max_wall}s workers={workers} repo={os.environ.get('VERIF_REPO', '/repo')}", flush=True)

    agg = {
        "runs": 0,
        "faults": Counter(),
        "probes": Counter(),
        "sigs": set(),
        "nontrivial_sigs": set(),
        "states": set(),
        "known": {},
        "ops_planned": 0,
        "ops_done": 0,
        "mission_s": 0.0,
        "checks": 0,
        "events": 0,
        "digests": hashlib.sha256(),
        "clock_lo": None,
        "clock_hi": None,
        "maxima": {},
    }
    samples = []
    violations = []
    harness_errors = []
    idx_chunks = [list(range(s, min(s + chunk, runs))) for s in range(0, runs, chunk)]
    results_by_run = {}
    ctx_mp = mp.get_context("fork")
    stopped_early = False
    if hasattr(mod, "batch_setup"):
        mod.batch_setup()  # e.g. files every run of the batch reads, written once before the workers are forked
    with ProcessPoolExecutor(max_workers=workers, mp_context=ctx_mp, initializer=_worker_init) as ex:
        pending = {}
        it = iter(idx_chunks)
        # keep the queue short so that the wall cap is honoured
        def submit_more():
            while len(pending) < workers * 2:
                try:
                    c = next(it)
                except StopIteration:
                    return False
                pending[ex.submit(_worker_chunk, prop, seed, c, tier)] = c
            return True

        more = submit_more()
        while pending:
            done = next(as_completed(list(pending)))
            c = pending.pop(done)
            try:
                rs = done.result()
            except Exception as e:  # worker died
                harness_errors.append(f"worker failure on runs {c}: {type(e).__name__}: {e}")
                rs = []
            for r in rs:
                results_by_run[r["run"]] = r
            if time.time() - t0 > max_wall:
                stopped_early = True
                for f in pending:
                    f.cancel()
                # wait for the ones already running
                for f in list(pending):
                    if not f.cancelled():
                        try:
                            for r in f.result():
                                results_by_run[r["run"]] = r
                        except Exception:
                            pass
                pending.clear()
                break
            if violations_enough(results_by_run):
                for f in pending:
                    f.cancel()
                for f in list(pending):
                    if not f.cancelled():
                        try:
                            for r in f.result():
                                results_by_run[r["run"]] = r
                        except Exception:
                            pass
                pending.clear()
                break
            more = more and submit_more()

    for i in sorted(results_by_run):
        r = results_by_run[i]
        agg["runs"] += 1
        agg["faults"].update(r["faults"])
        agg["probes"].update(r["probes"])
        agg["sigs"].add(r["sig"])
        if r["nontrivial"]:
            agg["nontrivial_sigs"].add(r["sig"])
        agg["states"].update(r["states"])
        for kid, detail in r["known_hits"]:
            agg["known"].setdefault(kid, [0, detail])[0] += 1
        agg["ops_planned"] += r["ops_planned"]
        agg["ops_done"] += r["ops_done"]
        agg["mission_s"] += r["mission_s"]
        agg["checks"] += r["checks"]
        agg["events"] += r["events"]
        for k, v in r.get("maxima", {}).items():
            if v > agg["maxima"].get(k, -1.0):
                agg["maxima"][k] = v
        agg["digests"].update(r["digest"].encode())
        lo, hi = r["clock_span"]
        if lo and (agg["clock_lo"] is None or lo < agg["clock_lo"]):
            agg["clock_lo"] = lo
        if hi and (agg["clock_hi"] is None or hi > agg["clock_hi"]):
            agg["clock_hi"] = hi
        if r.get("plan") is not None and len(samples) < 3 and not r["violation"]:
            samples.append({"run": i, "plan": r["plan"], "log_digest": r["digest"]})
        if r["harness_error"]:
            harness_errors.append(f"run {i}: {r['harness_error']}")
        if r["violation"]:
            violations.append(r)

    wall = time.time() - t0
    exit_code = 0
    replay_paths = []
    known = load_known()
    for kid, (cnt, detail) in sorted(agg["known"].items()):
        print(f"KNOWN-FINDING: property={prop} {kid} ({cnt} runs): {detail}")

    # report distinct violation classes, lowest run index first, at most 3
    seen_classes = set()
    for r in violations:
        v = r["violation"]
        cls = (v["clause"], v["fingerprint"].get("kind"))
        if cls in seen_classes or len(seen_classes) >= 3:
            continue
        seen_classes.add(cls)
        plan = r["plan"]
        raw_path = write_replay(prop, plan, r, tag="-raw")
        mplan, tried = minimise(prop, plan, v)
        mres = execute_plan(prop, mplan)
        if not _same_class(mres["violation"], v):
            mplan, mres = plan, r  # minimisation must never lose the violation
        path = write_replay(prop, mplan, mres)
        code, out = confirm_in_fresh_interpreter(path)
        note = "confirmed in fresh interpreter" if code == 1 else f"NOT confirmed in fresh interpreter (exit {code})"
        print(f"violation run={r['run']} clause={v['clause']} fingerprint={json.dumps(v['fingerprint'], sort_keys=True)}")
        print(f"  detail: {mres['violation']['detail']}")
        print(f"  minimised {len(plan.get('ops', []))} -> {len(mplan.get('ops', []))} ops in {tried} executions; {note}; unminimised plan: {raw_path}")
        if code != 1:
            harness_errors.append(f"replay of {path} did not reproduce (exit {code}): {out[-500:]}")
        print(f"VIOLATION property={prop} replay={path}", flush=True)
        replay_paths.append(path)
        exit_code = 1

    if harness_errors:
        for h in harness_errors[:5]:
            print("HARNESS-ERROR:", h)
        if exit_code == 0:
            exit_code = 2

    write_evidence(prop, mod, tier, seed, agg, samples, wall, len(violations), stopped_early, runs)
    rate = agg["runs"] / wall * 3600 if wall > 0 else 0
    print(
        f"[{prop}] {agg['runs']} runs in {wall:.1f}s ({rate:,.0f} runs/h), {agg['events']} events, {agg['checks']} oracle evaluations, "
        f"{len(agg['sigs'])} distinct interleavings ({len(agg['nontrivial_sigs'])} non-trivial), {len(agg['states'])} abstract states, faults={dict(agg['faults'])}",
        flush=True,
    )
    zero = [p for p in getattr(mod, "PROBES", []) if not agg["probes"].get(p)]
    if zero:
        print(f"[{prop}] probes never hit in this batch: {zero}")
    print(f"[{prop}] exit {exit_code}", flush=True)
    if hasattr(mod, "batch_teardown"):
        mod.batch_teardown()
    return exit_code


def violations_enough(results_by_run):
    # stop the batch early once 3 violating runs are in: the report only needs a few
    return sum(1 for r in results_by_run.values() if r["violation"]) >= 3


def write_evidence(prop, mod, tier, seed, agg, samples, wall, nviol, stopped_early, runs_requested):
    os.makedirs(EVIDENCE_DIR, exist_ok=True)
    level = getattr(mod, "LEVEL", "exploration")
    cov = {
        "evaluations": int(agg["runs"]),
        "distinct_nontrivial": int(len(agg["nontrivial_sigs"])),
        "rule": mod.RULE,
        "samples": samples[:3],
        "runs_requested": runs_requested,
        "stopped_by_wall_cap": stopped_early,
        "runs_per_hour": round(agg["runs"] / wall * 3600) if wall > 0 else 0,
        "seeds": f"run i of the batch uses Random('{prop}:{seed}:i'), i in [0,{agg['runs']})",
        "events": int(agg["events"]),
        "oracle_evaluations": int(agg["checks"]),
        "distinct_interleavings": int(len(agg["sigs"])),
        "abstract_states": int(len(agg["states"])),
        "abstract_state_measure": getattr(mod, "STATE_MEASURE", ""),
        "faults_fired": {k: int(v) for k, v in sorted(agg["faults"].items())},
        "probes": {k: int(agg["probes"].get(k, 0)) for k in sorted(set(getattr(mod, "PROBES", [])) | set(agg["probes"]))},
        "probes_at_zero": [p for p in getattr(mod, "PROBES", []) if not agg["probes"].get(p)],
        "ops_completed_ratio": round(agg["ops_done"] / agg["ops_planned"], 4) if agg["ops_planned"] else None,
        "mission_time_s": float(agg["mission_s"]),
        "sim_wall_clock_span": [agg["clock_lo"], agg["clock_hi"]],
        "real_vs_stub": getattr(mod, "REAL_VS_STUB", ""),
        "sampled_only_clauses": getattr(mod, "SAMPLED_ONLY", []),
        "known_findings_hit": {k: v[0] for k, v in sorted(agg["known"].items())},
        "observed_maxima": {k: agg["maxima"][k] for k in sorted(agg["maxima"])},
        "tolerances": getattr(mod, "TOLERANCES", {}),
        "batch_digest": agg["digests"].hexdigest(),
        "exhaustive": bool(getattr(mod, "EXHAUSTIVE", False)),
    }
    extra = getattr(mod, "extra_coverage", None)
    if extra:
        cov.update(extra(agg))
    ev = {
        "property_id": prop,
        "tier": tier,
        "seed": int(seed),
        "level": level,
        "coverage": cov,
        "assumptions": getattr(mod, "ASSUMPTIONS", []),
        "wall_s": round(wall, 2),
        "violations": int(nviol),
    }
    with open(os.path.join(EVIDENCE_DIR, f"{prop}.json"), "w") as fp:
        json.dump(ev, fp, indent=1, sort_keys=True, default=str)
