"""Builders that turn JSON specs of a plan into real library objects on a node,
plus canonical digests of those objects.  Everything here must be called inside
`with node:`; nothing draws randomness."""

import hashlib

import numpy as np

TLE_TEXT = {
    "iss": (
        "ISS (ZARYA)",
        "1 25544U 98067A   18124.55610684  .00001524  00000-0  30197-4 0  9997",
        "2 25544  51.6421 236.2139 0003381  47.8509  47.6767 15.54198229111731",
    ),
    "molniya": (
        "MOLNIYA 1-90",
        "1 24960U 97054A   18123.22759647  .00000163  00000-0  24467-3 0  9999",
        "2 24960  62.6812 182.7824 6470982 294.8616  12.8538  3.18684355160009",
    ),
    # 12 h resonant deep-space object (checksums recomputed by tle_fix)
    "gps": (
        "GPS BIIR-2  (PRN 13)",
        "1 24876U 97035A   18123.51236111 -.00000012  00000-0  00000+0 0  9990",
        "2 24876  55.5633 190.0351 0034201 115.8612 244.5489  2.00563301152530",
    ),
    # 24 h resonant
    "geo": (
        "GEO SAT",
        "1 26038U 99071A   18123.35641204  .00000078  00000-0  00000+0 0  9990",
        "2 26038   0.0518 267.7381 0002445 127.0293 325.5311  1.00271836 67220",
    ),
}


def tle_checksum(line):
    return sum(int(c) if c.isdigit() else (1 if c == "-" else 0) for c in line[:68]) % 10


def tle_fix(line):
    line = line[:68].ljust(68)
    return line + str(tle_checksum(line))


def tle_text(name):
    n, l1, l2 = TLE_TEXT[name]
    return "\n".join([n, tle_fix(l1), tle_fix(l2)])


def mk_date(node, ds, scale="UTC"):
    return node.Date(int(ds[0]), float(ds[1]), scale=scale)


def td(node, seconds):
    return node.timedelta(seconds=seconds)


def build_mans(node, spec, epoch):
    man = node.mod("beyond.orbits.man")
    out = []
    for m in spec.get("mans", []):
        d = epoch + td(node, m["off_s"])
        if m["type"] == "imp":
            out.append(man.ImpulsiveMan(d, m["dv"], frame=m.get("frame"), comment=m.get("comment")))
        elif m["type"] == "kep":
            out.append(man.KeplerianImpulsiveMan(d, da=m.get("da", 0), di=m.get("di", 0), dOmega=m.get("dOmega", 0)))
        else:
            out.append(man.ContinuousMan(d, td(node, m["dur_s"]), dv=m["dv"], frame=m.get("frame"), comment=m.get("comment")))
    return out


def build_propagator(node, spec):
    k = spec["kind"]
    if k == "sgp4":
        return node.mod("beyond.propagators.sgp4").Sgp4()
    if k == "kepler":
        return node.mod("beyond.propagators.kepler").Kepler()
    if k == "j2":
        return node.mod("beyond.propagators.j2").J2()
    if k == "none":
        return node.mod("beyond.propagators.none").NonePropagator()
    if k == "keplernum":
        kn = node.mod("beyond.propagators.keplernum")
        earth = node.mod("beyond.env.solarsystem").get_body("Earth")
        return kn.KeplerNum(td(node, spec["step_s"]), earth, method=spec.get("method", "rk4"))
    if k == "cw":
        cw = node.mod("beyond.propagators.cw")
        fr = node.mod("beyond.frames.frames")
        return cw.ClohessyWiltshire(spec["sma"], frame=fr.HillFrame(spec.get("orient", "QSW")))
    raise ValueError(k)


def build_orbit(node, spec, propagator=None):
    """Fresh Orbit (or Ephem for kind 'ephem') from a spec."""
    k = spec["kind"]
    if k == "ephem":
        src = build_orbit(node, spec["src"])
        start = src.date + td(node, spec["start_off"])
        eph = src.ephem(start=start, stop=td(node, spec["dur_s"]), step=td(node, spec["step_s"]))
        if spec.get("interp"):
            eph.method = spec["interp"]  # e.g. "linear" (an OEM may ask for it)
        if spec.get("order"):
            eph.order = spec["order"]  # set before the first use
        if spec.get("in_frame"):
            # an ephemeris handed over in another frame (e.g. the topocentric frame of a station registered on this node)
            eph.frame = node.frames.get_frame(spec["in_frame"])
        return eph
    if k == "sgp4":
        orb = node.Tle(tle_text(spec["tle"])).orbit()
        if propagator is not None:
            orb.propagator = propagator
        return orb
    epoch = mk_date(node, spec["epoch"], spec.get("scale", "UTC"))
    prop = propagator if propagator is not None else build_propagator(node, spec)
    if k == "cw":
        orb = node.Orbit(spec["rel"], epoch, "cartesian", prop.frame, prop)
        mans = build_mans(node, spec, epoch)
        if mans:
            orb.maneuvers = mans
        return orb
    orb = node.Orbit(spec["kep"], epoch, spec.get("form", "keplerian"), spec.get("frame", "EME2000"), prop)
    mans = build_mans(node, spec, epoch)
    if mans:
        orb.maneuvers = mans
    return orb


def is_ephem(obj):
    """An Ephem (public surface only: it interpolates and has a start, a state vector has neither)."""
    return hasattr(obj, "interpolate") and hasattr(obj, "start") and not hasattr(obj, "date")


def epoch_of(obj):
    return obj.start if is_ephem(obj) else obj.date


def date_key(d):
    return f"{d.d}:{float(d.s).hex()}:{d.scale.name}"


def digest_state(sv):
    """Digest of everything the caller can observe of a state/orbit."""
    h = hashlib.md5()
    h.update(np.ascontiguousarray(np.asarray(sv, dtype=float)).tobytes())
    data = sv._data
    h.update(str(data["form"].name).encode())
    h.update(str(data["frame"].name).encode())
    h.update(date_key(data["date"]).encode())
    for key in sorted(data):
        if key in ("form", "frame", "date", "propagator", "infos"):
            continue
        v = data[key]
        h.update(key.encode())
        if key == "cov":
            if v is not None:
                h.update(np.ascontiguousarray(np.asarray(v, dtype=float)).tobytes())
                h.update(str(getattr(v.frame, "name", v.frame)).encode())
        elif key == "maneuvers":
            h.update(str([id(m) for m in (v if isinstance(v, list) else [v])]).encode())
        elif key == "event":
            h.update(str(v).encode())
        elif isinstance(v, (int, float, str, type(None), bool)):
            h.update(repr(v).encode())
        elif isinstance(v, dict):
            h.update(repr(sorted((str(a), repr(b)) for a, b in v.items())).encode())
        else:
            h.update(type(v).__name__.encode())
    return h.hexdigest()


def digest_obj(obj):
    if is_ephem(obj):
        h = hashlib.md5()
        for o in list(obj):
            h.update(digest_state(o).encode())
        return h.hexdigest()
    return digest_state(obj)


def vec(sv):
    return np.array(np.asarray(sv, dtype=float))


def cart(sv):
    """Cartesian values of a state without touching it."""
    return vec(sv.copy(form="cartesian"))


# --------------------------------------------------------------- stations


def build_station(node, s):
    st = node.mod("beyond.frames.stations")
    kw = {}
    if s.get("mask"):
        kw["mask"] = s["mask"]
    return st.create_station(s["name"], (s["lat"], s["lon"], s["alt"]), **kw)


def build_listener(node, ls, stations):
    L = node.mod("beyond.propagators.listeners")
    t = ls["type"]
    if t == "node":
        return L.NodeListener(frame=ls.get("frame"))
    if t == "apside":
        return L.ApsideListener(frame=ls.get("frame"))
    if t == "anomaly":
        lis = L.AnomalyListener(ls["value"], anomaly=ls.get("anomaly", "true"), frame=ls.get("frame"))
        if ls.get("assign_turns"):
            lis.value = ls["value"] + 2 * np.pi * ls["assign_turns"]  # re-targeted after construction (the same angle, whole turns away)
        return lis
    if t == "light":
        if ls.get("frame"):
            return L.LightListener(ls.get("ltype", "umbra"), frame=ls["frame"])
        return L.LightListener(ls.get("ltype", "umbra"))
    if t == "terminator":
        return L.TerminatorListener()
    if t == "signal":
        return L.StationSignalListener(stations[ls["station"]], elev=ls.get("elev", 0))
    if t == "max":
        return L.StationMaxListener(stations[ls["station"]])
    if t == "mask":
        return L.StationMaskListener(stations[ls["station"]])
    if t == "radial":
        fr = stations[ls["station"]] if ls.get("station") is not None else node.frames.get_frame(ls.get("frame", "EME2000"))
        return L.RadialVelocityListener(fr, sight=ls.get("sight", False))
    raise ValueError(t)
