"""Independent model of the time scales and of the IERS tables (no import of beyond).

Instants and clock readings are integer microseconds since MJD 0 wherever the scale is
uniform; the IERS files are read with fixed-column readers written from the format
descriptions (finals.all / finals2000A.all: Bulletin A columns; tai-utc.dat: USNO list)."""

import math

US_DAY = 86400 * 10**6
TT_TAI_US = 32184000
TAI_GPS_US = 19000000


def read_tai_utc(text):
    """[(mjd of the first day the value applies, TAI-UTC seconds)]; None if unreadable."""
    out = []
    try:
        for line in text.splitlines():
            if not line.strip():
                continue
            p = line.split()
            jd = float(p[4])
            out.append((int(jd - 2400000.5), float(p[6])))
    except (ValueError, IndexError):
        return None
    return out


def read_finals(text, which):
    """{mjd: dict(x, y, ut1_utc, lod, d1, d2)} rows holding at least x, y, UT1-UTC (as the documentation says: the
    first row lacking them ends the usable part).  which = 'finals' (dpsi/deps) or 'finals2000A' (dx/dy)."""
    rows = {}
    for line in text.splitlines():
        line = line.rstrip()
        try:
            mjd = int(float(line[7:15]))
            row = {"x": float(line[18:27]), "y": float(line[37:46]), "ut1_utc": float(line[58:68])}
        except ValueError:
            break
        for key, sl in (("d1", slice(97, 106)), ("d2", slice(116, 125)), ("lod", slice(79, 86))):
            try:
                row[key] = float(line[sl])
            except ValueError:
                row[key] = rows.get(mjd - 1, {}).get(key)
        rows[mjd] = row
    return rows


class Tables:
    """What the (possibly faulted) files on the disk say."""

    def __init__(self, finals_text, finals2000_text, taiutc_text):
        self.finals = read_finals(finals_text, "finals") if finals_text is not None else None
        self.finals2000 = read_finals(finals2000_text, "finals2000A") if finals2000_text is not None else None
        self.leaps = read_tai_utc(taiutc_text) if taiutc_text is not None else None

    def tai_utc(self, mjd):
        if not self.leaps:
            return None
        val = None
        for d, v in self.leaps:
            if d <= mjd:
                val = v
        return val

    def row(self, day):
        """The row of the day, with the UT1-UTC values of *both* files (they carry the same columns; which one a
        database serves is its own business)."""
        if self.finals is None or self.finals2000 is None:
            return None
        if day in self.finals and day in self.finals2000:
            r = dict(self.finals[day])
            r["ut1_utc_either"] = {self.finals[day]["ut1_utc"], self.finals2000[day]["ut1_utc"]}
            return r
        return None


def tdb_minus_tt(mjd_tt):
    """Two-term periodic series (seconds), argument: MJD in TT (the error made by using another scale is < 1e-9 s)."""
    jd = mjd_tt + 2400000.5
    jj = (jd - 2451545.0) / 36525.0
    m = math.radians(357.5277233 + 35999.05034 * jj)
    dl = math.radians(246.11 + 0.90251792 * (jd - 2451545.0))
    return 0.001657 * math.sin(m) + 0.000022 * math.sin(dl)


def near_leap(leaps, mjd_float, window_s=120.0):
    """True when the instant lies within the window around a leap-second boundary (documented: not handled)."""
    for d, _ in leaps:
        if abs(mjd_float - d) * 86400.0 <= window_s + 70.0:
            return True
    return False


def date_range(start_us, stop_us, step_us, inclusive):
    """Model of an arithmetic date range on integer microseconds."""
    out = []
    t = start_us
    if step_us > 0:
        while t < stop_us or (inclusive and t == stop_us):
            out.append(t)
            t += step_us
    else:
        while t > stop_us or (inclusive and t == stop_us):
            out.append(t)
            t += step_us
    return out
