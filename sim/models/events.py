"""Independent models of the quantities watched by the listeners (numpy only,
no import of beyond).  Inputs are cartesian position/velocity in metres and
metres/second, in the frame the listener works in."""

import math

import numpy as np

R_EARTH = 6378136.3
R_SUN = 695700000.0
MU_EARTH = 5.97237e24 * 6.6740831e-11


def g_node(pv):
    """Signed quantity whose zero is the equator crossing: z (same sign as the latitude)."""
    return float(pv[2])


def g_node_rate(pv):
    return float(pv[5])


def g_apside(pv):
    """Radial velocity."""
    r = np.asarray(pv[:3], float)
    v = np.asarray(pv[3:], float)
    return float(r @ v / np.linalg.norm(r))


def kep(pv, mu=MU_EARTH):
    r = np.asarray(pv[:3], float)
    v = np.asarray(pv[3:], float)
    rn = np.linalg.norm(r)
    h = np.cross(r, v)
    hn = np.linalg.norm(h)
    evec = np.cross(v, h) / mu - r / rn
    e = np.linalg.norm(evec)
    energy = v @ v / 2 - mu / rn
    a = -mu / (2 * energy)
    i = math.acos(max(-1, min(1, h[2] / hn)))
    n = np.array([-h[1], h[0], 0.0])
    nn = np.linalg.norm(n)
    Om = math.atan2(n[1], n[0]) % (2 * math.pi)
    # argument of latitude
    u = math.atan2(r[2] / math.sin(i), (r[0] * math.cos(Om) + r[1] * math.sin(Om))) % (2 * math.pi)
    # true anomaly
    nu = math.atan2((np.cross(evec, r) @ h) / hn, evec @ r) % (2 * math.pi)
    E = 2 * math.atan2(math.sqrt(max(0.0, 1 - e)) * math.sin(nu / 2), math.sqrt(1 + e) * math.cos(nu / 2)) % (2 * math.pi)
    M = (E - e * math.sin(E)) % (2 * math.pi)
    return {"a": a, "e": e, "i": i, "Om": Om, "u": u, "nu": nu, "E": E, "M": M}


def wrap(x):
    return (x + math.pi) % (2 * math.pi) - math.pi


def g_anomaly(pv, value, kind, mu=MU_EARTH):
    k = kep(pv, mu)
    x = {"true": k["nu"], "mean": k["M"], "eccentric": k["E"], "aol": k["u"]}[kind]
    return wrap(x - value)


def g_light(r_sat, r_sun, kind="umbra", r_body=R_EARTH, r_sun_body=R_SUN):
    """+1 when lit, -1 when inside the umbra (resp. inside the penumbra cone, which contains the
    umbra), from the true cone geometry: umbra apex behind the body at d*Rb/(Rs-Rb) with half-angle
    asin((Rs-Rb)/d); penumbra apex in front of it at d*Rb/(Rs+Rb) with half-angle asin((Rs+Rb)/d)."""
    r_sat = np.asarray(r_sat, float)
    s = np.asarray(r_sun, float)
    d = np.linalg.norm(s)
    shat = s / d
    along = -(r_sat @ shat)  # distance behind the body, along the anti-sun axis
    if along <= 0:
        return 1.0
    perp = np.linalg.norm(r_sat + along * shat)
    if kind == "umbra":
        alpha = math.asin((r_sun_body - r_body) / d)
        apex = r_body / math.sin(alpha)
        lim = (apex - along) * math.tan(alpha)
        return -1.0 if perp <= lim else 1.0
    alpha = math.asin((r_sun_body + r_body) / d)
    apex = r_body / math.sin(alpha)
    lim = (apex + along) * math.tan(alpha)
    return -1.0 if perp <= lim else 1.0


def light_margin(r_sat, r_sun, kind="umbra", r_body=R_EARTH, r_sun_body=R_SUN):
    """Signed distance (metres, >0 lit) of the satellite to the cone surface, measured
    perpendicular to the axis."""
    r_sat = np.asarray(r_sat, float)
    s = np.asarray(r_sun, float)
    d = np.linalg.norm(s)
    shat = s / d
    along = -(r_sat @ shat)
    perp = np.linalg.norm(r_sat + along * shat)
    if kind == "umbra":
        alpha = math.asin((r_sun_body - r_body) / d)
        lim = (r_body / math.sin(alpha) - along) * math.tan(alpha)
    else:
        alpha = math.asin((r_sun_body + r_body) / d)
        lim = (r_body / math.sin(alpha) + along) * math.tan(alpha)
    if along <= 0:
        return float(max(perp - lim, -along))
    return float(perp - lim)


def g_terminator(r_sat, r_sun):
    r_sat = np.asarray(r_sat, float)
    s = np.asarray(r_sun, float)
    return float(r_sat @ s / (np.linalg.norm(r_sat) * np.linalg.norm(s)))


def topo(pv_station):
    """(range, azimuth-like theta, elevation phi, and their rates) from cartesian coordinates in
    a topocentric frame (x north, y west, z up)."""
    x, y, z, vx, vy, vz = [float(c) for c in pv_station]
    r = math.sqrt(x * x + y * y + z * z)
    rho2 = x * x + y * y
    phi = math.asin(z / r)
    theta = math.atan2(y, x) % (2 * math.pi)
    r_dot = (x * vx + y * vy + z * vz) / r
    phi_dot = (vz * rho2 - z * (x * vx + y * vy)) / (r * r * math.sqrt(rho2)) if rho2 > 0 else 0.0
    return {"r": r, "theta": theta, "phi": phi, "r_dot": r_dot, "phi_dot": phi_dot}


def mask_value(mask, azim):
    """Piecewise-linear interpolation of a (2, n) mask table with strictly increasing azimuths whose
    last azimuth is 2 pi, the value at 2 pi also serving at 0."""
    az = list(mask[0])
    el = list(mask[1])
    azim = azim % (2 * math.pi)
    if az[0] > 0:
        az = [0.0] + az
        el = [el[-1]] + el
    for k in range(len(az) - 1):
        if az[k] <= azim <= az[k + 1]:
            if az[k + 1] == az[k]:
                return el[k]
            return el[k] + (el[k + 1] - el[k]) * (azim - az[k]) / (az[k + 1] - az[k])
    return el[-1]
