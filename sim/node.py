"""Nodes: private, independent copies of the `beyond` package inside one process.

A *node* models one OS process that imported `beyond`: it has its own frame
registry, routing graphs, EOP database table, configuration dict, JPL
singletons and memo caches.  Creating a node = importing the package afresh
from $VERIF_REPO (default /repo) with every `beyond*` entry removed from
sys.modules; entering a node = installing its module set in sys.modules (the
library does function-level relative imports and pickle resolves classes by
module name, so the right set must be installed while node code runs).

Seams owned by the simulator, installed in the node's private copy only:
  * wall clock   : beyond.dates.date.datetime  -> SimDateTime (virtual utcnow)
  * EOP storage  : beyond.dates.eop.Path       -> SimPath (simulated disk)
Nothing in /repo is modified.
"""

import importlib
import io
import os
import sys
from datetime import datetime as _real_datetime

REPO = os.environ.get("VERIF_REPO", "/repo")

_PREFIX = "beyond"


def _is_ours(name):
    return name == _PREFIX or name.startswith(_PREFIX + ".")


# Keys of the `beyond*` modules currently installed in sys.modules (None = unknown, scan).  Every context switch goes through this
# file, so the set is known without scanning the ~700 entries of sys.modules twice per switch; modules imported lazily while a node
# runs are found by a scan on exit, made only when the size of sys.modules changed in between.
_cur_keys = None
_active = None  # the node whose module set is installed right now (None: the program's own)


def _current_keys():
    global _cur_keys
    if _cur_keys is None:
        _cur_keys = [k for k in sys.modules if _is_ours(k)]
    return _cur_keys


def _ensure_path():
    if not sys.path or sys.path[0] != REPO:
        # the path-based finder is consulted before the editable-install finder
        sys.path.insert(0, REPO)


# --------------------------------------------------------------------- clock


class VirtualClock:
    """The only wall clock a node can read."""

    def __init__(self, now=None):
        self.now = now or _real_datetime(2020, 1, 1)
        self.reads = 0

    def set(self, dt):
        self.now = dt


def _make_sim_datetime(clock):
    class _Meta(type(_real_datetime)):
        def __instancecheck__(cls, inst):
            return isinstance(inst, _real_datetime)

    class SimDateTime(_real_datetime, metaclass=_Meta):
        @classmethod
        def utcnow(cls):
            clock.reads += 1
            n = clock.now
            return _real_datetime(
                n.year, n.month, n.day, n.hour, n.minute, n.second, n.microsecond
            )

        @classmethod
        def now(cls, tz=None):  # pragma: no cover - not used by beyond
            return cls.utcnow()

    return SimDateTime


# ---------------------------------------------------------------------- disk


class DiskFault(OSError):
    pass


class SimDisk:
    """Simulated durable storage: {path string: bytes or str}.

    `faults[path]` = ("missing" | "eacces" | "eio", ...) is consulted at open /
    read time.  Survives node restarts (a restart creates a new Node with the
    same SimDisk)."""

    def __init__(self):
        self.files = {}
        self.faults = {}
        self.opens = []

    def write(self, path, data):
        self.files[str(path)] = data

    def read(self, path):
        return self.files[str(path)]


class _SimFile(io.StringIO):
    def __init__(self, text, fail_read=None):
        super().__init__(text)
        self._fail_read = fail_read

    def read(self, *a):
        if self._fail_read:
            raise DiskFault(5, "Input/output error (injected)")
        return super().read(*a)


def _make_sim_path(disk):
    class SimPath:
        def __init__(self, p):
            self._p = str(p._p if isinstance(p, SimPath) else p)

        @classmethod
        def cwd(cls):
            return cls("/cwd")

        def __truediv__(self, other):
            return SimPath(self._p.rstrip("/") + "/" + str(other))

        def __str__(self):
            return self._p

        def __fspath__(self):
            return self._p

        def __repr__(self):
            return f"SimPath({self._p!r})"

        def exists(self):
            f = disk.faults.get(self._p)
            return self._p in disk.files and not (f and f[0] == "missing")

        def open(self, mode="r", encoding=None, **kw):
            disk.opens.append(self._p)
            f = disk.faults.get(self._p)
            if f and f[0] == "missing" or self._p not in disk.files:
                raise FileNotFoundError(2, "No such file or directory", self._p)
            if f and f[0] == "eacces":
                raise PermissionError(13, "Permission denied", self._p)
            data = disk.files[self._p]
            if isinstance(data, bytes):
                data = data.decode(encoding or "ascii")
            return _SimFile(data, fail_read=bool(f and f[0] == "eio"))

    return SimPath


# ---------------------------------------------------------------------- node


class Node:
    """One simulated process holding a private copy of `beyond`."""

    _counter = 0

    def __init__(self, name=None, clock=None, disk=None, preload=()):
        Node._counter += 1
        self.name = name or f"n{Node._counter}"
        self.clock = clock or VirtualClock()
        self.disk = disk if disk is not None else SimDisk()
        self._saved = None
        _ensure_path()
        global _cur_keys
        outer = {k: sys.modules.pop(k) for k in list(sys.modules) if _is_ours(k)}
        _cur_keys = None
        try:
            importlib.invalidate_caches() if False else None
            pkg = importlib.import_module("beyond")
            # the modules every workload touches; importing here makes module
            # sets comparable between nodes
            for m in (
                "beyond.config",
                "beyond.errors",
                "beyond.dates",
                "beyond.dates.date",
                "beyond.dates.eop",
                "beyond.frames",
                "beyond.frames.frames",
                "beyond.frames.stations",
                "beyond.orbits",
                "beyond.orbits.statevector",
                "beyond.orbits.orbit",
                "beyond.orbits.ephem",
                "beyond.orbits.cov",
                "beyond.orbits.forms",
                "beyond.orbits.man",
                "beyond.propagators.base",
                "beyond.propagators.listeners",
                "beyond.propagators.kepler",
                "beyond.propagators.j2",
                "beyond.propagators.none",
                "beyond.propagators.keplernum",
                "beyond.propagators.sgp4",
                "beyond.io.tle",
            ) + tuple(preload):
                importlib.import_module(m)
            self.pkg = pkg
            self.modules = {k: v for k, v in sys.modules.items() if _is_ours(k)}
            if not os.path.realpath(pkg.__file__).startswith(os.path.realpath(REPO)):
                raise RuntimeError(f"beyond imported from {pkg.__file__}, not {REPO}")
            # ---- seams
            date_mod = sys.modules["beyond.dates.date"]
            date_mod.datetime = _make_sim_datetime(self.clock)
            eop_mod = sys.modules["beyond.dates.eop"]
            eop_mod.Path = _make_sim_path(self.disk)
        finally:
            for k in [k for k in sys.modules if _is_ours(k)]:
                del sys.modules[k]
            sys.modules.update(outer)
            _cur_keys = list(outer)

    # context switch -----------------------------------------------------
    def __enter__(self):
        global _cur_keys, _active
        self._stack = getattr(self, "_stack", [])
        mods = sys.modules
        saved = {k: mods.pop(k) for k in _current_keys() if k in mods}
        mods.update(self.modules)
        _cur_keys = list(self.modules)
        self._stack.append((saved, len(mods), _active))
        _active = self
        return self

    def __exit__(self, *exc):
        global _cur_keys, _active
        mods = sys.modules
        saved, size, _active = self._stack.pop()
        if len(mods) != size:
            # modules imported lazily while the node ran belong to the node
            for k in [k for k in mods if _is_ours(k)]:
                self.modules[k] = mods[k]
        for k in self.modules:
            mods.pop(k, None)
        mods.update(saved)
        _cur_keys = list(saved)
        return False

    def mod(self, name):
        """Return a module of this node, importing it inside the node if needed."""
        global _cur_keys
        if name not in self.modules:
            if _active is self:
                # already inside this node: import in place (a nested context would put the former module set back on exit)
                importlib.import_module(name)
                for k in [k for k in sys.modules if _is_ours(k)]:
                    self.modules[k] = sys.modules[k]
                _cur_keys = list(self.modules)
            else:
                with self:
                    importlib.import_module(name)
        return self.modules[name]

    def __getattr__(self, item):
        # convenience: node.Date, node.config ...
        short = {
            "config": ("beyond.config", "config"),
            "Date": ("beyond.dates.date", "Date"),
            "timedelta": ("beyond.dates.date", "timedelta"),
            "StateVector": ("beyond.orbits.statevector", "StateVector"),
            "Orbit": ("beyond.orbits.orbit", "Orbit"),
            "Ephem": ("beyond.orbits.ephem", "Ephem"),
            "Cov": ("beyond.orbits.cov", "Cov"),
            "Tle": ("beyond.io.tle", "Tle"),
            "EopDb": ("beyond.dates.eop", "EopDb"),
            "frames": ("beyond.frames.frames", None),
        }
        if item in short:
            m, a = short[item]
            mod = self.__dict__["modules"][m] if m in self.__dict__.get("modules", {}) else self.mod(m)
            return mod if a is None else getattr(mod, a)
        raise AttributeError(item)


def load_real_eop(disk, folder="/eop"):
    """Copy the real IERS tables shipped with the repo's tests onto a SimDisk."""
    base = os.path.join(REPO, "tests", "data", "pole")
    for fn in ("finals.all", "finals2000A.all", "tai-utc.dat"):
        with open(os.path.join(base, fn), "r", encoding="ascii") as fp:
            disk.write(f"{folder}/{fn}", fp.read())
    return folder
